package main

// C11 — embedded resources.  Host documents (HTML, SVG, CSS) with ONE embedded payload at a known site are
// minified by the real host minifier over hand-built registries of recording stub minifiers (each sub-minifier
// present or absent, custom types, failing stubs).  Checked against
//   (a) the Lean model Model.Embed.target (media type, parameters, payload handed to the registry) — "diff";
//   (b) the property itself, judged independently of the model: the stub registered for the documented type was
//       called with exactly the payload and its output appears in the host output; with no minifier registered the
//       payload passes through unchanged; a failing stub fails the outer call with the stub's error, positioned in
//       the outer document — "fail".

import (
	"bytes"
	"encoding/base64"
	"encoding/hex"
	"errors"
	"fmt"
	"io"
	"regexp"
	"sort"
	"strings"
	"time"

	"github.com/tdewolff/minify/v2"
	mincss "github.com/tdewolff/minify/v2/css"
	minhtml "github.com/tdewolff/minify/v2/html"
	minjs "github.com/tdewolff/minify/v2/js"
	minjson "github.com/tdewolff/minify/v2/json"
	minsvg "github.com/tdewolff/minify/v2/svg"
	"github.com/tdewolff/parse/v2"
	xhtml "golang.org/x/net/html"

	"verifharness/h"
)

type c11Call struct {
	id      string
	params  map[string]string
	payload string
}

type c11Case struct {
	host     string // html | svg | css
	site     string // model site name
	siteArg  string // type attribute / contentStyleType
	pre      string
	open     string
	payload  string
	close    string
	post     string
	wantMime string // by the documented rule (independent Go statement)
	wantPar  string
	wantPay  string
	attr     bool
}

func (c c11Case) doc() string { return c.pre + c.open + c.payload + c.close + c.post }

var c11Mimes = []string{"text/css", "application/javascript", "text/html", "image/svg+xml", "application/mathml+xml", "application/ld+json", "text/template", "module", "text/x-custom", "text/javascript"}

func c11Marker(id, payload string) string {
	return "ZQ" + hex.EncodeToString([]byte(id)) + "X" + hex.EncodeToString([]byte(payload)) + "QZ"
}

var c11MarkerRe = regexp.MustCompile(`ZQ([0-9a-f]*)X([0-9a-f]*)QZ`)
var c11WsRe = regexp.MustCompile(`[ \t\r\n]+`)

func c11Trim(s string) string { return string(parse.TrimWhitespace([]byte(s))) }

func c11Gen(r *h.RNG) c11Case {
	payloads := []string{"a{b:c}", "x = 1 ;", "color : red", "f( 1 )", "  p  ", "a\nb", "if(a){b}", "q", "{'a': 1}", "M0 0L1 1", "a;b", "x y z", "1+2"}
	p := r.Pick(payloads)
	pres := []string{"", "<p>t</p>", "<b>x</b> ", "text ", "<div>", "<b>x</b>\n  ", "a\n\nb"}
	posts := []string{"", "<p>u</p>", " tail"}
	var c c11Case
	switch k := r.Intn(12); {
	case k < 4: // html raw text
		tag := []string{"script", "style", "iframe"}[r.Intn(3)]
		ty := r.Pick([]string{"", "", "text/javascript", "module", "application/ld+json", "text/template", "text/css", "text/x-custom; a=b", "text/x-custom;a=b;c=d", "application/javascript"})
		open := "<" + tag
		if ty != "" {
			open += ` type="` + ty + `"`
		}
		open += ">"
		c = c11Case{host: "html", site: "htmlRaw." + tag, siteArg: ty, pre: r.Pick(pres), open: open, payload: p, close: "</" + tag + ">", post: r.Pick(posts)}
		switch {
		case tag == "iframe":
			c.wantMime = "text/html"
		case ty == "" && tag == "script":
			c.wantMime = "application/javascript"
		case ty == "" && tag == "style":
			c.wantMime = "text/css"
		default:
			parts := strings.SplitN(ty, ";", 2)
			c.wantMime = strings.TrimSpace(parts[0])
			if len(parts) == 2 {
				var ps []string
				for _, kv := range strings.Split(parts[1], ";") {
					ps = append(ps, strings.TrimSpace(kv))
				}
				sort.Strings(ps)
				c.wantPar = strings.Join(ps, ";")
			}
		}
		c.wantPay = p
	case k < 5:
		inner := r.Pick([]string{`<path d="M0 0L1 1"/>`, `<g/>`, `<rect x="1"/>`})
		c = c11Case{host: "html", site: "htmlSvg", pre: r.Pick(pres), open: "", payload: "<svg>" + inner + "</svg>", close: "", post: r.Pick(posts), wantMime: "image/svg+xml", wantPar: "inline=1"}
		c.wantPay = c.payload
	case k < 6:
		c = c11Case{host: "html", site: "htmlMath", pre: r.Pick(pres), open: "", payload: "<math><mi>x</mi></math>", close: "", post: r.Pick(posts), wantMime: "application/mathml+xml"}
		c.wantPay = c.payload
	case k < 8: // html attributes
		if r.Bool() {
			c = c11Case{host: "html", site: "htmlStyleAttr", pre: r.Pick(pres), open: `<p style="`, payload: p, close: `">x</p>`, post: r.Pick(posts), wantMime: "text/css", wantPar: "inline=1", attr: true}
			c.wantPay = c11Trim(p)
		} else {
			pp := r.Pick([]string{"", "javascript:", "JavaScript:", " javascript:"}) + p
			c = c11Case{host: "html", site: "htmlOnAttr", pre: r.Pick(pres), open: `<a onclick="`, payload: pp, close: `">x</a>`, post: r.Pick(posts), wantMime: "application/javascript", wantPar: "inline=1", attr: true}
			w := c11Trim(pp)
			if len(w) >= 11 && strings.EqualFold(w[:11], "javascript:") {
				w = w[11:]
			}
			c.wantPay = w
		}
	case k < 10: // svg
		cst := r.Pick([]string{"", "", "text/css", "text/x-custom"})
		root := "<svg"
		if cst != "" {
			root += ` contentStyleType="` + cst + `"`
		}
		root += ">"
		mime := "text/css"
		if cst != "" {
			mime = cst
		}
		if r.Bool() {
			if r.Bool() {
				c = c11Case{host: "svg", site: "svgStyleText", siteArg: cst, pre: root, open: "<style>", payload: p, close: "</style>", post: "</svg>", wantMime: mime}
				// the svg layer collapses whitespace and trims text before handing it over
				c.wantPay = c11Trim(string(parse.ReplaceMultipleWhitespace([]byte(p))))
			} else {
				c = c11Case{host: "svg", site: "svgStyleText", siteArg: cst, pre: root, open: "<style><![CDATA[", payload: p, close: "]]></style>", post: "</svg>", wantMime: mime}
				c.wantPay = p
			}
		} else {
			c = c11Case{host: "svg", site: "svgStyleAttr", siteArg: cst, pre: root, open: `<g style="`, payload: p, close: `"/>`, post: "</svg>", wantMime: mime, wantPar: "inline=1", attr: true}
			c.wantPay = c11Trim(c11WsRe.ReplaceAllString(p, " ")) // XML attribute-value normalisation: every whitespace run is one space
		}
	case k < 11 && r.Chance(50): // style element of an SVG that is itself embedded in HTML (the real svg minifier is the middle layer, called with inline=1)
		pp := r.Pick([]string{"a{b:c}", "color : red", "q", "a;b", "x y z", "a { b : c } d { e : f }"})
		if r.Bool() {
			c = c11Case{host: "html", site: "htmlSvgStyle", pre: r.Pick(pres) + "<svg>", open: "<style>", payload: pp, close: "</style>", post: "<g/></svg>" + r.Pick(posts), wantMime: "text/css"}
			c.wantPay = c11Trim(string(parse.ReplaceMultipleWhitespace([]byte(pp))))
		} else {
			c = c11Case{host: "html", site: "htmlSvgStyle", pre: r.Pick(pres) + "<svg>", open: `<g style="`, payload: pp, close: `"/>`, post: "</svg>" + r.Pick(posts), wantMime: "text/css", wantPar: "inline=1", attr: true}
			c.wantPay = c11Trim(c11WsRe.ReplaceAllString(pp, " "))
		}
	default: // data URIs in CSS and HTML
		mt := r.Pick([]string{"text/css", "image/svg+xml", "application/javascript", "text/x-custom"})
		pay := r.Pick([]string{"abcdef", "xyzzy", "qq", "abc0123"})
		if r.Bool() {
			c = c11Case{host: "css", site: "dataURI", siteArg: mt, pre: "a{b:url(", open: "data:" + mt + ",", payload: pay, close: "", post: ")}", wantMime: mt, wantPay: pay}
		} else {
			c = c11Case{host: "html", site: "dataURI", siteArg: mt, pre: `<img src="`, open: "data:" + mt + ",", payload: pay, close: "", post: `">`, wantMime: mt, wantPay: pay, attr: true}
		}
	}
	return c
}

func c11ParamStr(p map[string]string) string {
	var ps []string
	for k, v := range p {
		ps = append(ps, k+"="+v)
	}
	sort.Strings(ps)
	return strings.Join(ps, ";")
}

func init() {
	register("C11", func(c *Ctx) error {
		st := c.R.StartStage("embed-sites", "host documents (HTML raw-text elements with/without type attribute incl. module, application/ld+json, text/template, parameters; svg/math tokens; style and on* attributes; SVG style element text/CDATA and style attribute with/without contentStyleType; data: URIs in CSS url() and HTML URL attributes) x payloads x registry configurations (each sub-minifier literal present or absent, catch-all pattern present or absent, echoing / failing stubs); non-trivial = a stub was selected or the payload had to pass through a host with the type unregistered")
		n := c.N(6000, 150000)
		type item struct {
			cs   c11Case
			call *c11Call
			key  string
			line string
		}
		var items []item
		for k := 0; k < n; k++ {
			r := c.Rng.Fork()
			cs := c11Gen(r)
			// registry configuration
			present := map[string]bool{}
			for _, mt := range c11Mimes {
				present[mt] = r.Chance(65)
			}
			catchAll := r.Chance(15)
			failing := r.Chance(15)
			failLine, failCol := 1+r.Intn(2), 1+r.Intn(5)
			plainErr := r.Chance(30)
			var calls []c11Call
			m := minify.New()
			mkStub := func(id string) minify.MinifierFunc {
				return func(_ *minify.M, w io.Writer, rd io.Reader, params map[string]string) error {
					b, _ := io.ReadAll(rd)
					cp := map[string]string{}
					for k, v := range params {
						cp[k] = v
					}
					calls = append(calls, c11Call{id, cp, string(b)})
					if failing {
						if plainErr {
							return errors.New("stub failure " + id)
						}
						return &parse.Error{Message: "stub failure " + id, Line: failLine, Column: failCol}
					}
					if cs.site == "dataURI" {
						// DataURI keeps the original unless the result is shorter: shrink recognisably
						w.Write([]byte(strings.ToUpper(string(b[:len(b)-1]))))
						return nil
					}
					w.Write([]byte(c11Marker(id, string(b))))
					return nil
				}
			}
			hostMime := map[string]string{"html": "text/html", "svg": "image/svg+xml", "css": "text/css"}[cs.host]
			if cs.site == "htmlSvgStyle" {
				present["image/svg+xml"] = false // the middle layer is the real svg minifier
				catchAll = false
				present["text/css"] = true
			}
			for _, mt := range c11Mimes {
				if present[mt] && mt != hostMime {
					m.AddFunc(mt, mkStub(mt))
				}
			}
			if cs.site == "htmlSvgStyle" {
				m.AddFunc("image/svg+xml", minsvg.Minify)
			}
			// the host minifier's own parameters must not leak into the sub-minifier of a style ELEMENT (a style sheet), whatever they are
			var hostParams map[string]string
			if cs.host == "svg" && r.Bool() {
				hostParams = map[string]string{"inline": "1"}
			}
			// the host itself is always the real minifier; when the host type is also an embed target (iframe → text/html,
			// style inside svg → text/css …) a stub for it is registered only if `present`
			if present[hostMime] {
				m.AddFunc(hostMime, mkStub(hostMime))
			}
			if catchAll {
				m.AddFuncRegexp(regexp.MustCompile(`.*`), mkStub("catchall"))
			}
			var out bytes.Buffer
			var err error
			doc := cs.doc()
			crash := h.Safely(20*time.Second, func() {
				switch cs.host {
				case "html":
					err = (&minhtml.Minifier{}).Minify(m, &out, strings.NewReader(doc), nil)
				case "svg":
					err = (&minsvg.Minifier{}).Minify(m, &out, strings.NewReader(doc), hostParams)
				case "css":
					err = (&mincss.Minifier{}).Minify(m, &out, strings.NewReader(doc), nil)
				}
			})
			cfg := fmt.Sprintf("present=%v catchall=%v failing=%v hostparams=%s", c11PresentList(present), catchAll, failing, c11ParamStr(hostParams))
			key := fmt.Sprintf("%s site=%s doc=%q", cs.host, cs.site, doc)
			if crash != "" {
				c.R.Add(h.Finding{Stage: st.Name, Kind: "crash", What: crash, Input: key, Config: cfg})
				continue
			}
			// which stub should run, by the documented rule (literal first, else the catch-all pattern)
			wantID := ""
			if present[cs.wantMime] {
				wantID = cs.wantMime
			} else if catchAll {
				wantID = "catchall"
			}
			st.Count(key+" "+cfg, true)
			st.Tag(cs.site)
			add := func(what string) {
				c.R.Add(h.Finding{Stage: st.Name, Kind: "fail", What: what, Input: key, Config: cfg, Impl: h.Q(trunc(out.Bytes(), 300)) + fmt.Sprintf(" err=%v calls=%v", err, calls)})
			}
			outS := out.String()
			if wantID == "" {
				st.Tag("passthrough")
				if len(calls) != 0 {
					add("a minifier was called although none is registered for the embedded type " + cs.wantMime)
					continue
				}
				if err != nil {
					add("outer call failed although no minifier is registered for the embedded type")
					continue
				}
				// payload passes through unchanged (attribute sites: the trimmed value)
				if cs.site == "dataURI" {
					if !strings.Contains(outS, cs.wantPay) {
						add("data URI payload did not pass through unchanged")
					}
				} else if cs.host == "svg" {
					// the SVG layer applies its own (documented) whitespace collapsing/trimming to text and CDATA content
					if !strings.Contains(outS, c11Trim(c11WsRe.ReplaceAllString(cs.wantPay, " "))) && !strings.Contains(outS, c11Trim(string(parse.ReplaceMultipleWhitespace([]byte(cs.wantPay))))) {
						add("embedded bytes did not pass through (up to the SVG layer's whitespace collapsing)")
					}
				} else if !strings.Contains(outS, cs.wantPay) {
					add("embedded bytes did not pass through unchanged")
				}
				continue
			}
			if len(calls) != 1 {
				add(fmt.Sprintf("expected exactly one call of the minifier registered for %s, saw %d", cs.wantMime, len(calls)))
				continue
			}
			call := calls[0]
			if call.id != wantID {
				add(fmt.Sprintf("embedded content handed to the minifier for %s instead of %s", call.id, wantID))
				continue
			}
			if cs.site != "dataURI" && (call.payload != cs.wantPay || c11ParamStr(call.params) != cs.wantPar) {
				add(fmt.Sprintf("minifier called with payload %q params %q, documented: payload %q params %q", call.payload, c11ParamStr(call.params), cs.wantPay, cs.wantPar))
				continue
			}
			if cs.site == "dataURI" && call.payload != cs.wantPay {
				add(fmt.Sprintf("data URI minifier called with payload %q, expected %q", call.payload, cs.wantPay))
				continue
			}
			if failing {
				st.Tag("error")
				if err == nil {
					if cs.site == "dataURI" {
						continue // DataURI documents that a failing sub-minifier leaves the URI as it is
					}
					add("embedded minifier failed but the outer call reported success")
					continue
				}
				if !strings.Contains(err.Error(), "stub failure "+call.id) {
					add("outer error is not the embedded minifier's error: " + err.Error())
					continue
				}
				if pe, ok := err.(*parse.Error); ok && !plainErr && cs.site != "htmlSvgStyle" {
					// true position of the error in the outer document
					off := len(cs.pre) + len(cs.open)
					if cs.site == "htmlSvg" || cs.site == "htmlMath" {
						off = len(cs.pre)
					}
					line, col := 1, 1
					for _, ch := range doc[:off] {
						if ch == '\n' {
							line, col = line+1, 1
						} else {
							col++
						}
					}
					tl, tc := line+failLine-1, failCol
					if failLine == 1 {
						tc = col + failCol - 1
					}
					known := c11PosKnown(cs, failLine)
					// "located inside the outer document": the reported position must point into the embedding construct,
					// at or before the true position of the error (hosts trim / unwrap the payload before handing it over)
					sl, sc := 1, 1
					for _, ch := range doc[:len(cs.pre)] {
						if ch == '\n' {
							sl, sc = sl+1, 1
						} else {
							sc++
						}
					}
					before := func(l1, c1, l2, c2 int) bool { return l1 < l2 || l1 == l2 && c1 <= c2 }
					if !(before(sl, sc, pe.Line, pe.Column) && before(pe.Line, pe.Column, tl, tc)) {
						if known != "" {
							c.R.ExcludedKnown++
						} else {
							add(fmt.Sprintf("error position (%d,%d) does not point into the embedding construct of the outer document (construct starts at (%d,%d), error is at (%d,%d))", pe.Line, pe.Column, sl, sc, tl, tc))
						}
					}
				}
			} else {
				st.Tag("minified")
				if err != nil {
					add("outer call failed: " + err.Error())
					continue
				}
				if cs.site == "dataURI" {
					if !strings.Contains(outS, strings.ToUpper(cs.wantPay[:len(cs.wantPay)-1])) || strings.Contains(outS, cs.wantPay) {
						add("data URI does not carry exactly what the registered minifier produced")
					}
					continue
				}
				ms := c11MarkerRe.FindAllStringSubmatch(outS, -1)
				if len(ms) != 1 {
					add(fmt.Sprintf("output contains %d copies of the embedded minifier's output, expected 1", len(ms)))
					continue
				}
				idb, _ := hex.DecodeString(ms[0][1])
				pb, _ := hex.DecodeString(ms[0][2])
				if string(idb) != call.id || string(pb) != call.payload {
					add("output does not contain exactly what the registered minifier produced")
					continue
				}
			}
			// (a) correspondence with the Lean model of the target selection
			if cs.site != "dataURI" && cs.site != "htmlSvgStyle" {
				cc := call
				mp := cs.payload
				if cs.host == "svg" {
					// the SVG layer normalises whitespace of text / attribute values before the embedding decision; the model starts after that
					mp = cs.wantPay
				}
				items = append(items, item{cs, &cc, key + " " + cfg, "model.c11.target " + h.HexS(cs.site) + " " + h.HexS(cs.siteArg) + " " + h.HexS(mp)})
			}
		}
		lines := make([]string, len(items))
		for i := range items {
			lines[i] = items[i].line
		}
		rep, err := h.Eval(lines)
		if err != nil {
			return err
		}
		for i, it := range items {
			b, ok, msg := h.DecodeReply(rep[i])
			got := h.DecodeListReply(b)
			if !ok || len(got) < 2 {
				c.R.Add(h.Finding{Stage: st.Name, Kind: "diff", What: "model.c11.target " + msg, Input: it.key})
				continue
			}
			var ps []string
			for j := 2; j+1 < len(got); j += 2 {
				ps = append(ps, string(got[j])+"="+string(got[j+1]))
			}
			sort.Strings(ps)
			modelMime, modelPay, modelPar := string(got[0]), string(got[1]), strings.Join(ps, ";")
			wantPay := it.call.payload
			implMime := it.call.id
			if implMime == "catchall" {
				implMime = modelMime // the catch-all stub cannot see the type it was selected for
			}
			if modelMime != implMime || modelPay != wantPay || modelPar != c11ParamStr(it.call.params) {
				c.R.Add(h.Finding{Stage: st.Name, Kind: "diff", What: "model.c11.target", Input: it.key,
					Impl: fmt.Sprintf("%s|%q|%s", it.call.id, wantPay, c11ParamStr(it.call.params)), Model: fmt.Sprintf("%s|%q|%s", modelMime, modelPay, modelPar)})
			}
		}
		st.End()
		if err := c11Sequences(c); err != nil {
			return err
		}
		if err := c11Real(c); err != nil {
			return err
		}
		st = c.R.StartStage("known-replay", "replay of the open known findings of C11")
		st.Count("known findings", false)
		// known findings: replay
		for _, k := range h.Known("C11") {
			if k.Status != "open" {
				continue
			}
			doc := k.ReplayStr("doc")
			m := minify.New()
			m.AddFunc("application/javascript", func(_ *minify.M, w io.Writer, rd io.Reader, _ map[string]string) error {
				return &parse.Error{Message: "stub", Line: int(k.Replay["inner_line"].(float64)), Column: int(k.Replay["inner_col"].(float64))}
			})
			var out bytes.Buffer
			err := (&minhtml.Minifier{}).Minify(m, &out, strings.NewReader(doc), nil)
			pe, _ := err.(*parse.Error)
			still := pe != nil && (pe.Line != int(k.Replay["true_line"].(float64)) || pe.Column != int(k.Replay["true_col"].(float64)))
			obs := ""
			if pe != nil {
				obs = fmt.Sprintf("reported (%d,%d)", pe.Line, pe.Column)
			}
			c.R.AddKnown(k.ID, still, k.What, obs)
		}
		st.End()
		return nil
	})
}

// c11PosKnown classifies a case under the two open known findings about error positions.
func c11PosKnown(cs c11Case, failLine int) string {
	if failLine > 1 {
		return "K-C11-2" // column shifted although the error is not on the payload's first line
	}
	// K-C11-1: a collapsible whitespace run containing a newline precedes the payload (buffer rewritten in place)
	pre := cs.pre + cs.open
	for i := 0; i+1 < len(pre); i++ {
		if (pre[i] == '\n' || pre[i] == ' ') && (pre[i+1] == '\n' || pre[i+1] == ' ') && strings.Contains(pre, "\n") {
			return "K-C11-1"
		}
	}
	return ""
}

func c11PresentList(p map[string]bool) []string {
	var out []string
	for k, v := range p {
		if v {
			out = append(out, k)
		}
	}
	sort.Strings(out)
	return out
}

// ---------- stage: sequences of raw-text elements (state carried from one element to the next) ----------

func c11Sequences(c *Ctx) error {
	st := c.R.StartStage("embed-sequences", "HTML documents with 2-4 raw-text elements in a row (script/style/iframe; typed or untyped; empty, whitespace-only or non-empty content; with src attribute) over registries of recording stubs for every type: the k-th non-empty element must be handed to the minifier of ITS OWN type attribute / default, whatever the previous elements were; non-trivial = at least two elements and one of them typed")
	n := c.N(3000, 60000)
	types := []string{"", "", "module", "application/ld+json", "text/template", "text/css", "text/javascript", "text/x-custom; a=b"}
	for k := 0; k < n; k++ {
		r := c.Rng.Fork()
		ne := 2 + r.Intn(3)
		var doc strings.Builder
		type want struct{ mime, payload string }
		var wants []want
		typed := false
		for e := 0; e < ne; e++ {
			tag := []string{"script", "style", "script", "iframe"}[r.Intn(4)]
			ty := r.Pick(types)
			if tag == "iframe" {
				ty = ""
			}
			payload := r.Pick([]string{"", "", "x=1", "a{b:c}", " ", "q"})
			doc.WriteString("<" + tag)
			if ty != "" {
				doc.WriteString(` type="` + ty + `"`)
				typed = true
			}
			if tag == "script" && r.Chance(30) {
				doc.WriteString(` src=a.js`)
			}
			doc.WriteString(">" + payload + "</" + tag + ">")
			if r.Chance(40) {
				doc.WriteString(r.Pick([]string{" ", "<p>x</p>", "text"}))
			}
			if payload == "" {
				continue
			}
			mime := ""
			switch {
			case tag == "iframe":
				mime = "text/html"
			case ty == "" && tag == "script":
				mime = "application/javascript"
			case ty == "":
				mime = "text/css"
			default:
				mime = strings.TrimSpace(strings.SplitN(ty, ";", 2)[0])
			}
			wants = append(wants, want{mime, payload})
		}
		var calls []c11Call
		m := minify.New()
		for _, mt := range append(c11Mimes, "text/html") {
			mt := mt
			m.AddFunc(mt, func(_ *minify.M, w io.Writer, rd io.Reader, params map[string]string) error {
				b, _ := io.ReadAll(rd)
				calls = append(calls, c11Call{mt, nil, string(b)})
				w.Write([]byte(c11Marker(mt, string(b))))
				return nil
			})
		}
		var out bytes.Buffer
		var err error
		d := doc.String()
		crash := h.Safely(20*time.Second, func() { err = (&minhtml.Minifier{}).Minify(m, &out, strings.NewReader(d), nil) })
		key := fmt.Sprintf("html sequence doc=%q", d)
		st.Count(key, ne >= 2 && typed)
		if crash != "" || err != nil {
			c.R.Add(h.Finding{Stage: st.Name, Kind: "fail", What: fmt.Sprintf("sequence of raw-text elements: outer call failed: %v %s", err, crash), Input: key})
			continue
		}
		ok := len(calls) == len(wants)
		for i := 0; ok && i < len(wants); i++ {
			ok = calls[i].id == wants[i].mime && calls[i].payload == wants[i].payload
		}
		if !ok {
			c.R.Add(h.Finding{Stage: st.Name, Kind: "fail", What: "an embedded element was not handed to the minifier of its own type (state leaked between elements?)", Input: key,
				Impl: fmt.Sprintf("%v", calls), Model: fmt.Sprintf("%v", wants)})
		}
	}
	st.End()
	return nil
}

// ---------- stage: the real sub-minifiers ----------

func c11Real(c *Ctx) error {
	st := c.R.StartStage("embed-real", "hosts (HTML script/style elements and style/on* attributes, CSS url(data:), HTML URL attributes with data: URIs) over the REAL css/js/html/svg/json minifiers: the embedded part of the output equals what the sub-minifier produces stand-alone for the same payload and parameters; a payload on which the sub-minifier FAILS inside a data: URI must come out as the original payload (re-encoded at most), never half-rewritten; non-trivial = the sub-minifier changed or rejected the payload")
	reg := func() *minify.M {
		m := minify.New()
		m.AddFunc("text/css", mincss.Minify)
		m.AddFunc("text/html", minhtml.Minify)
		m.AddFunc("image/svg+xml", minsvg.Minify)
		m.AddFuncRegexp(regexp.MustCompile("^(application|text)/(x-)?(java|ecma)script$"), minjs.Minify)
		m.AddFuncRegexp(regexp.MustCompile("[/+]json$"), minjson.Minify)
		return m
	}
	type pay struct{ mime, text string }
	pays := []pay{
		{"text/css", "a { color : #FF0000 ; margin : 0px 0px }"}, {"text/css", "a{b:c"}, {"text/css", "A > B { Width : 10.0PX }"},
		{"application/javascript", "var  x = 1 ;  function f ( a ) { return a * 2 }"}, {"application/javascript", "var = ;"}, {"application/javascript", "if (a) { b() } else { c() }"},
		{"text/html", "<P CLASS=A>x<SCRIPT>var = ;</SCRIPT>"}, {"text/html", "<P CLASS=\"A\"> x </P>"}, {"text/html", "<DIV><B>y</B></DIV>"},
		{"image/svg+xml", "<svg  xmlns='http://www.w3.org/2000/svg'><path d='M 10 10 L 20 20'/></svg>"},
		{"application/json", "{ \"a\" : [ 1.0 , 2 ] }"}, {"application/ld+json", "{ \"A\" : 1 ,"},
		// payloads whose (minified) bytes need escaping in the host syntax: parentheses, quotes, blanks, backslash
		{"text/plain", "a(b)"}, {"text/plain", "it's (x) y"}, {"text/plain", "say \"hi\" (now)"}, {"text/plain", "a b\\c )"}, {"text/plain", "((((((((((()))))))))))"},
		{"application/json", `{"k" : "<<<<>>>>####{{{{}}}}"}`}, {"application/json", `[ "<>#{}<>#{}<>#{}" ,"<>#{}"]`}, {"application/ld+json", `{"@" :"{{{{[[[[<<<<####"}`},
		{"text/css", `a{content:"<<<>>>###{{{}}}" ; }`}, {"image/svg+xml", `<svg xmlns="http://www.w3.org/2000/svg"><a b="<>#{}[]"/> </svg>`},
		{"text/css", "a { content : '(' }"}, {"text/css", "a{content:\")\"}"}, {"application/javascript", "f ( 'x' ) ;"}, {"application/javascript", "g ( \"y\" , ( 1 ) )"},
	}
	n := c.N(600, 20000)
	for k := 0; k < n; k++ {
		r := c.Rng.Fork()
		p := pays[r.Intn(len(pays))]
		m := reg()
		sub, subErr := m.Bytes(p.mime, []byte(p.text))
		var doc string
		var extract func(out string) (string, bool)
		host := "text/html"
		switch r.Intn(4) {
		case 0: // data URI in CSS: unquoted / single / double quoted x percent-encoded / base64
			host = "text/css"
			var body string
			if r.Chance(35) {
				body = "data:" + p.mime + ";base64," + base64.StdEncoding.EncodeToString([]byte(p.text))
			} else {
				enc := string(parse.EncodeURL([]byte(p.text), parse.DataURIEncodingTable))
				for _, rp := range [][2]string{{"'", "%27"}, {"\"", "%22"}, {"(", "%28"}, {")", "%29"}, {" ", "%20"}, {"\\", "%5C"}, {"\t", "%09"}, {"\n", "%0A"}} {
					enc = strings.ReplaceAll(enc, rp[0], rp[1])
				}
				body = "data:" + p.mime + "," + enc
			}
			q := r.Pick([]string{"", "'", "\""})
			doc = "a{background:url(" + r.Pick([]string{"", " "}) + q + body + q + r.Pick([]string{"", " "}) + ")}"
			extract = c11ExtractDataURI
		case 1: // data URI in an HTML URL attribute
			enc := strings.ReplaceAll(string(parse.EncodeURL([]byte(p.text), parse.DataURIEncodingTable)), "'", "%27")
			doc = "<img src='data:" + p.mime + "," + enc + "'>"
			extract = c11ExtractDataURI
		default: // raw text element
			if p.mime != "text/css" && p.mime != "application/javascript" && p.mime != "application/ld+json" && p.mime != "application/json" {
				continue
			}
			if strings.Contains(p.text, "<") {
				continue
			}
			tag, ty := "script", ""
			if p.mime == "text/css" {
				tag = "style"
			} else if p.mime != "application/javascript" {
				ty = ` type="` + p.mime + `"`
			}
			doc = "<p>t</p><" + tag + ty + ">" + p.text + "</" + tag + ">"
			extract = func(out string) (string, bool) {
				i := strings.Index(out, "<"+tag)
				if i < 0 {
					return "", false
				}
				j := strings.Index(out[i:], ">")
				e := strings.Index(out[i:], "</"+tag)
				if j < 0 || e < 0 {
					return "", false
				}
				return out[i+j+1 : i+e], true
			}
		}
		var out string
		var err error
		crash := h.Safely(30*time.Second, func() { out, err = m.String(host, doc) })
		key := fmt.Sprintf("%s host doc=%q payload type %s", host, doc, p.mime)
		st.Count(key, subErr != nil || string(sub) != p.text)
		if crash != "" {
			c.R.Add(h.Finding{Stage: st.Name, Kind: "crash", What: crash, Input: key})
			continue
		}
		isData := strings.Contains(doc, "data:")
		if subErr != nil && !isData {
			if err == nil {
				c.R.Add(h.Finding{Stage: st.Name, Kind: "fail", What: "embedded minifier fails on the payload but the outer call reports success", Input: key, Impl: h.Q([]byte(out))})
			}
			continue
		}
		if err != nil {
			c.R.Add(h.Finding{Stage: st.Name, Kind: "fail", What: "outer call failed: " + err.Error(), Input: key})
			continue
		}
		got, ok := extract(out)
		if !ok {
			c.R.Add(h.Finding{Stage: st.Name, Kind: "fail", What: "embedded part not found in the output", Input: key, Impl: h.Q([]byte(out))})
			continue
		}
		want := string(sub)
		if subErr != nil {
			want = p.text // DataURI tolerates a failing sub-minifier: the original payload must survive
		}
		if got != want && !(isData && got == p.text) { // a data URI may keep the original when the result is not shorter
			c.R.Add(h.Finding{Stage: st.Name, Kind: "fail", What: "embedded content is not what its own minifier produces (or, on failure, not the original payload)", Input: key, Impl: h.Q([]byte(got)), Model: h.Q([]byte(want))})
		}
	}
	// SVG style attributes and style elements through the real CSS minifier, with values the svg layer may have to give back
	// unchanged (the minified result is not character data): what is written must be the minified value or the ORIGINAL value
	// (white space normalised), never a buffer the sub-minifier has half rewritten in place
	{
		decls := []string{"stroke-width:  0.50px", "margin : 0.250px   1.0px", "fill:#FF0000", "opacity:0.50", "width: 10.0px ", "font-size:1.0em"}
		tails := []string{"a:&amp;", "a:&lt;", "a:&#38;", "b:c&amp;", "b:&quot;x&quot;", "c:d", "", "a:&amp;;"}
		for k := 0; k < c.N(300, 6000); k++ {
			r := c.Rng.Fork()
			var parts []string
			for i := 1 + r.Intn(3); i > 0; i-- {
				parts = append(parts, r.Pick(decls))
			}
			if t := r.Pick(tails); t != "" {
				parts = append(parts, t)
			}
			val := strings.Join(parts, r.Pick([]string{";", " ; ", ";\n  "})) + r.Pick([]string{"", " ", ";"})
			doc := `<svg xmlns="http://www.w3.org/2000/svg"><g style="` + val + `" id="i"/></svg>`
			host := "image/svg+xml"
			if r.Chance(40) {
				doc = "<p>t</p>" + doc
				host = "text/html"
			}
			m := reg()
			out, err := m.String(host, doc)
			key := fmt.Sprintf("%s host doc=%q (style attribute, real css minifier)", host, doc)
			st.Count(key, true)
			if err != nil {
				continue // a CSS syntax error is reported: nothing to compare
			}
			got, ok := c11StyleAttr(out)
			if !ok {
				c.R.Add(h.Finding{Stage: st.Name, Kind: "fail", What: "style attribute not found in the output", Input: key, Impl: h.Q([]byte(out))})
				continue
			}
			orig := c11Trim(c11WsRe.ReplaceAllString(xhtml.UnescapeString(val), " "))
			sub, serr := reg().String("text/css;inline=1", orig)
			if got != orig && !(serr == nil && got == sub) {
				c.R.Add(h.Finding{Stage: st.Name, Kind: "fail", What: "style attribute value is neither what the CSS minifier produces for it nor the original value", Input: key, Impl: h.Q([]byte(got)), Model: h.Q([]byte(sub)) + " or " + h.Q([]byte(orig))})
			}
		}
	}
	// CSS escapes inside a quoted data URI belong to the host syntax: the payload is what the CSS string denotes
	for _, fc := range []struct{ doc, want string }{
		{`a{b:url('data:text/plain,a\'b c')}`, "a'b c"},
		{`a{b:url("data:text/plain,say \"hi\" (x)")}`, `say "hi" (x)`},
		{`a{b:url('data:text/plain,a\\b')}`, `a\b`},
		{`a{b:url(data:text/plain\,a%20b)}`, ""},
	} {
		m := reg()
		out, err := m.String("text/css", fc.doc)
		key := fmt.Sprintf("text/css host doc=%q (CSS escapes inside the data URI)", fc.doc)
		st.Count(key, true)
		if err != nil {
			c.R.Add(h.Finding{Stage: st.Name, Kind: "fail", What: "outer call failed: " + err.Error(), Input: key})
			continue
		}
		if fc.want == "" {
			if out != fc.doc {
				c.R.Add(h.Finding{Stage: st.Name, Kind: "fail", What: "an escaped unquoted data URI must be left alone", Input: key, Impl: h.Q([]byte(out))})
			}
			continue
		}
		if got, ok := c11ExtractDataURI(out); !ok || got != fc.want {
			c.R.Add(h.Finding{Stage: st.Name, Kind: "fail", What: "payload of a data URI written with CSS escapes changed", Input: key, Impl: h.Q([]byte(out)), Model: h.Q([]byte(fc.want))})
		}
	}
	st.End()
	return nil
}

// c11StyleAttr returns the decoded value of the first style attribute of the output (x/net/html tokenizer)
func c11StyleAttr(out string) (string, bool) {
	z := xhtml.NewTokenizer(strings.NewReader(out))
	for {
		tt := z.Next()
		if tt == xhtml.ErrorToken {
			return "", false
		}
		if tt == xhtml.StartTagToken || tt == xhtml.SelfClosingTagToken {
			_, more := z.TagName()
			for more {
				var k, v []byte
				k, v, more = z.TagAttr()
				if string(k) == "style" {
					return string(v), true
				}
			}
		}
	}
}

// c11ExtractDataURI finds the data: URI in a host output (HTML attribute value via the x/net/html tokenizer, CSS url(...)
// with or without quotes) and decodes its payload (percent-encoding or base64).
func c11ExtractDataURI(out string) (string, bool) {
	uri := ""
	if strings.HasPrefix(out, "<") {
		z := xhtml.NewTokenizer(strings.NewReader(out))
		for uri == "" {
			tt := z.Next()
			if tt == xhtml.ErrorToken {
				break
			}
			if tt == xhtml.StartTagToken || tt == xhtml.SelfClosingTagToken {
				_, more := z.TagName()
				for more {
					var v []byte
					_, v, more = z.TagAttr()
					if bytes.HasPrefix(v, []byte("data:")) {
						uri = string(v)
					}
				}
			}
		}
	} else if i := strings.Index(out, "url("); i >= 0 {
		// CSS Syntax 3 §4.3.6 (consume a url token) / §4.3.5 (string token): the token must end at the `)` that closes the
		// declaration's value, i.e. be followed by `}`; anything else means the payload was not escaped for the host syntax
		rest := strings.TrimLeft(out[i+4:], " \t\n")
		end := -1
		if len(rest) > 0 && (rest[0] == '\'' || rest[0] == '"') {
			var sb strings.Builder
			j := 1
			for ; j < len(rest) && rest[j] != rest[0]; j++ {
				if rest[j] == '\n' {
					return "", false // bad string
				}
				if rest[j] == '\\' && j+1 < len(rest) {
					j++
				}
				sb.WriteByte(rest[j])
			}
			if j >= len(rest) {
				return "", false
			}
			uri = sb.String()
			tail := strings.TrimLeft(rest[j+1:], " \t\n")
			if !strings.HasPrefix(tail, ")") {
				return "", false
			}
			end = len(rest) - len(tail) + 1
		} else {
			var sb strings.Builder
			j := 0
			for ; j < len(rest) && rest[j] != ')'; j++ {
				ch := rest[j]
				if ch == '"' || ch == '\'' || ch == '(' || ch < 0x20 || ch == 0x7f {
					return "", false // bad url
				}
				if ch == ' ' || ch == '\t' || ch == '\n' {
					if strings.TrimLeft(rest[j:], " \t\n") == "" || strings.TrimLeft(rest[j:], " \t\n")[0] != ')' {
						return "", false // bad url
					}
					continue
				}
				if ch == '\\' && j+1 < len(rest) {
					j++
					ch = rest[j]
				}
				sb.WriteByte(ch)
			}
			if j >= len(rest) {
				return "", false
			}
			uri = sb.String()
			end = j + 1
		}
		if tail := rest[end:]; tail != "}" && tail != "" {
			return "", false // the url token ended before the end of the value: something of the payload leaked out of it
		}
	}
	if uri == "" {
		return "", false
	}
	_, data, err := parse.DataURI([]byte(uri))
	if err != nil {
		return "", false
	}
	return string(data), true
}

package main

// C09, CSS slice — the output of css.Minify is CSS again, token for token.
//
// Every case runs the REAL css.Minify (public API), then in one batched h.Eval the independent tokeniser of
// lean/Verif/Spec/C09CssTok.lean (`spec.c09.css.tokens/values/closed`) on input and output; the judgement is made
// on those token streams:
//   (1) second pass on the output succeeds (and is reported as fixed point or not; a second pass that differs is judged
//       again by (2)–(6) with the first output as input),
//   (2) block structure: the `{`/`}` skeleton is the same, brackets balanced if they were,
//   (3) no new bad-string / bad-url token, nothing left open at the end that was not open in the input,
//   (4) every string / url value of the output is a string / url value of the input (data: URIs excepted, C18),
//   (5) everything that is not a declaration value (selectors, at-rule preludes, property names) is the same token
//       stream modulo the documented rewrites (ASCII case of identifiers, `[a="b"]` → `[a=b]`, `@import url(x)` → `"x"`,
//       white space around combinators and separators),
//   (6) single declarations: the significant tokens of the written value are exactly the tokens the minifier chose
//       (`model.c09.css.plan`), each tokenised on its own (`spec.c09.css.joined`) — the executable form of the
//       theorem `css_writer_retokenises`: nothing merged, nothing split.
// The dependency lexer on the output is a second witness (token boundaries must agree outside the documented
// differences of the two tokenisers).

import (
	"bytes"
	"fmt"
	"os"
	"path/filepath"
	"regexp"
	"sort"
	"strconv"
	"strings"
	"time"

	"github.com/tdewolff/minify/v2"
	mincss "github.com/tdewolff/minify/v2/css"
	"github.com/tdewolff/parse/v2"
	pcss "github.com/tdewolff/parse/v2/css"

	"verifharness/h"
)

// token type codes of Verif.Spec.CssValue.TT (= order of the dependency's css.TokenType)
const (
	c09CssIdent = 1 + iota
	c09CssFunction
	c09CssAtKeyword
	c09CssHash
	c09CssString
	c09CssBadString
	c09CssURL
	c09CssBadURL
	c09CssDelim
	c09CssNumber
	c09CssPercentage
	c09CssDimension
)
const (
	c09CssWS = 20 + iota
	c09CssCDO
	c09CssCDC
	c09CssColon
	c09CssSemicolon
	c09CssComma
	c09CssLBracket
	c09CssRBracket
	c09CssLParen
	c09CssRParen
	c09CssLBrace
	c09CssRBrace
	c09CssComment
)

type c09CssTok struct {
	tt  int
	lex string
	ws  bool // white space in front of it
	cmt bool // a comment in front of it
	pos int  // byte offset in the source
}

type c09CssCase struct {
	src    string
	inline bool
	css2   bool
	prec   int
	tag    string
	// single declaration cases: property and value are at known places of src/out
	decl bool
}

func (k c09CssCase) cfg() string {
	return fmt.Sprintf("inline=%v KeepCSS2=%v Precision=%d", k.inline, k.css2, k.prec)
}
func (k c09CssCase) key() string { return fmt.Sprintf("%q %s", k.src, k.cfg()) }

func c09CssMinify(src string, inline, css2 bool, prec int) (out string, err error, crash string) {
	crash = h.Safely(30*time.Second, func() {
		m := minify.New()
		o := &mincss.Minifier{KeepCSS2: css2, Precision: prec, Inline: inline}
		var w bytes.Buffer
		err = o.Minify(m, &w, strings.NewReader(src), nil)
		out = w.String()
	})
	return
}

// c09CssDecode turns the reply of spec.c09.css.tokens into significant tokens with their white-space flag.
func c09CssDecode(src string, reply string) ([]c09CssTok, error) {
	b, ok, msg := h.DecodeReply(reply)
	if !ok {
		return nil, fmt.Errorf("spec.c09.css.tokens: %s", msg)
	}
	var ts []c09CssTok
	if len(b) == 0 {
		return ts, nil
	}
	f := strings.Fields(string(b))
	pos := 0
	ws, cmt := false, false
	for i := 0; i+1 < len(f); i += 2 {
		tt, _ := strconv.Atoi(f[i])
		n, _ := strconv.Atoi(f[i+1])
		if pos+n > len(src) {
			return nil, fmt.Errorf("spec.c09.css.tokens: lengths exceed the input")
		}
		if tt == c09CssWS {
			ws = true
		} else if tt == c09CssComment {
			cmt = true
		} else {
			ts = append(ts, c09CssTok{tt, src[pos : pos+n], ws, cmt, pos})
			ws, cmt = false, false
		}
		pos += n
	}
	if pos != len(src) {
		return nil, fmt.Errorf("spec.c09.css.tokens: lexemes cover %d of %d bytes", pos, len(src))
	}
	return ts, nil
}

// ---------- structure of a token stream (independent of the dependency parser) ----------

func c09CssSkeleton(ts []c09CssTok) string {
	var sb strings.Builder
	for _, t := range ts {
		if t.tt == c09CssLBrace {
			sb.WriteByte('{')
		} else if t.tt == c09CssRBrace {
			sb.WriteByte('}')
		}
	}
	return sb.String()
}

func c09CssBalanced(ts []c09CssTok) bool {
	var st []int
	for _, t := range ts {
		switch t.tt {
		case c09CssLBrace, c09CssLBracket, c09CssLParen, c09CssFunction:
			st = append(st, t.tt)
		case c09CssRBrace, c09CssRBracket, c09CssRParen:
			if len(st) == 0 {
				return false
			}
			o := st[len(st)-1]
			okc := (t.tt == c09CssRBrace && o == c09CssLBrace) || (t.tt == c09CssRBracket && o == c09CssLBracket) ||
				(t.tt == c09CssRParen && (o == c09CssLParen || o == c09CssFunction))
			if !okc {
				return false
			}
			st = st[:len(st)-1]
		}
	}
	return len(st) == 0
}

func c09CssCount(ts []c09CssTok, tt int) int {
	n := 0
	for _, t := range ts {
		if t.tt == tt {
			n++
		}
	}
	return n
}

// c09CssMask: the token stream with every declaration value replaced by a placeholder; selectors and at-rule
// preludes canonical (identifiers lower-cased, white space kept only where it can be a descendant combinator or
// separates two words of a prelude).
func c09CssMask(ts []c09CssTok, inline bool) []string {
	var out []string
	i := 0
	isDelim := func(t c09CssTok, s string) bool { return t.tt == c09CssDelim && t.lex == s }
	canonTok := func(t c09CssTok) string {
		switch t.tt {
		case c09CssIdent, c09CssAtKeyword, c09CssFunction, c09CssDimension:
			return strconv.Itoa(t.tt) + ":" + strings.ToLower(t.lex)
		}
		return strconv.Itoa(t.tt) + ":" + t.lex
	}
	importPrelude := false
	prelude := func(p []c09CssTok, at bool) string {
		var parts []string
		inAttr := 0
		isImport := importPrelude
		importPrelude = false
		for j := 0; j < len(p); j++ {
			t := p[j]
			if isImport {
				// `@import url(x)`, `@import url("x")` and `@import "x"` are the same import: the url is masked here
				// (its value is compared by the values check)
				if t.tt == c09CssURL || t.tt == c09CssString {
					parts = append(parts, "URL")
					continue
				}
				if t.tt == c09CssFunction && strings.EqualFold(t.lex, "url(") {
					parts = append(parts, "URL")
					for j+1 < len(p) && p[j+1].tt != c09CssRParen {
						j++
					}
					j++
					continue
				}
			}
			// An+B: `2n + 1` and `2n+1` are the same microsyntax (CSS Syntax 3 §6): a `+` delimiter and the unsigned
			// number behind it read as a signed number
			if !at && t.tt == c09CssDelim && t.lex == "+" && j+1 < len(p) && p[j+1].tt == c09CssNumber && p[j+1].lex[0] >= '0' && p[j+1].lex[0] <= '9' &&
				j > 0 && (p[j-1].tt == c09CssDimension || p[j-1].tt == c09CssIdent) {
				parts = append(parts, strconv.Itoa(c09CssNumber)+":+"+p[j+1].lex)
				j++
				continue
			}
			tight := func(x c09CssTok) bool {
				if x.tt == c09CssComma {
					return true
				}
				if at {
					return x.tt == c09CssColon
				}
				return isDelim(x, ">") || isDelim(x, "+") || isDelim(x, "~")
			}
			wordish := func(x c09CssTok) bool {
				return x.tt == c09CssIdent || c09CssIsNum(x.tt) || x.tt == c09CssHash || x.tt == c09CssFunction || x.tt == c09CssURL || x.tt == c09CssString || x.tt == c09CssAtKeyword
			}
			if t.ws && j > 0 && inAttr == 0 && !tight(t) && !tight(p[j-1]) {
				// in a selector white space can be the descendant combinator; in an at-rule prelude it only matters where
				// its removal would change the tokens (`a b`, `and (`)
				if !at || ((wordish(p[j-1]) || p[j-1].tt == c09CssRParen) && (wordish(t) || t.tt == c09CssLParen)) {
					parts = append(parts, "_")
				}
			}
			if t.tt == c09CssLBracket {
				inAttr++
			} else if t.tt == c09CssRBracket && inAttr > 0 {
				inAttr--
			}
			// [a="b"] and [a=b] are the same attribute selector; @import url(x) and @import "x" the same import
			if t.tt == c09CssString && inAttr > 0 && !at {
				if v, err := strconv.Unquote(`"` + strings.ReplaceAll(t.lex[1:len(t.lex)-1], `"`, `\"`) + `"`); err == nil && pcss.IsIdent([]byte(v)) {
					parts = append(parts, strconv.Itoa(c09CssIdent)+":"+v)
					continue
				}
				if len(t.lex) >= 2 && pcss.IsIdent([]byte(t.lex[1:len(t.lex)-1])) {
					parts = append(parts, strconv.Itoa(c09CssIdent)+":"+t.lex[1:len(t.lex)-1])
					continue
				}
			}
			if inAttr > 0 && !at && t.tt == c09CssIdent {
				parts = append(parts, strconv.Itoa(t.tt)+":"+t.lex) // attribute values are case-sensitive
				continue
			}
			parts = append(parts, canonTok(t))
		}
		return strings.Join(parts, " ")
	}
	_ = prelude
	var block func(top bool)
	block = func(top bool) {
		for i < len(ts) {
			t := ts[i]
			if t.tt == c09CssSemicolon || (top && (t.tt == c09CssCDO || t.tt == c09CssCDC)) {
				i++
				continue
			}
			if t.tt == c09CssRBrace {
				if !top {
					return
				}
				out = append(out, "stray}")
				i++
				continue
			}
			// scan to the end of the statement's prelude
			j, depth := i, 0
			end := 0 // '{' | ';' | '}' | 0 = EOF
			for ; j < len(ts); j++ {
				x := ts[j]
				if depth == 0 && (x.tt == c09CssLBrace || x.tt == c09CssSemicolon || (x.tt == c09CssRBrace && !top)) {
					end = x.tt
					break
				}
				switch x.tt {
				case c09CssLParen, c09CssFunction, c09CssLBracket:
					depth++
				case c09CssRParen, c09CssRBracket:
					if depth > 0 {
						depth--
					}
				}
			}
			p := ts[i:j]
			i = j
			if end == c09CssLBrace {
				if t.tt == c09CssAtKeyword {
					out = append(out, "at "+strings.ToLower(t.lex)+" "+prelude(p[1:], true), "{")
				} else {
					out = append(out, "rule "+prelude(p, false), "{")
				}
				i++
				block(false)
				if i < len(ts) && ts[i].tt == c09CssRBrace {
					i++
				}
				out = append(out, "}")
				continue
			}
			if t.tt == c09CssAtKeyword {
				importPrelude = strings.EqualFold(t.lex, "@import")
				out = append(out, "at "+strings.ToLower(t.lex)+" "+prelude(p[1:], true))
				continue
			}
			// declaration: name ':' value
			c := -1
			for k, x := range p {
				if x.tt == c09CssColon {
					c = k
					break
				}
			}
			if c < 0 || top {
				out = append(out, "junk "+prelude(p, false))
				continue
			}
			out = append(out, "decl "+prelude(p[:c], false))
		}
	}
	block(!inline)
	return out
}

// ---------- hazards, measured on the significant tokens of the OUTPUT ----------

func c09CssIsNum(tt int) bool {
	return tt == c09CssNumber || tt == c09CssPercentage || tt == c09CssDimension
}

func c09CssHazards(ts []c09CssTok, out string) []string {
	set := map[string]bool{}
	depth := 0
	for i, t := range ts {
		if t.tt == c09CssFunction || t.tt == c09CssLParen {
			depth++
		} else if t.tt == c09CssRParen && depth > 0 {
			depth--
		}
		switch t.tt {
		case c09CssString:
			set["string"] = true
			if strings.Contains(t.lex, "\\\n") || strings.Contains(t.lex, "\\\r") {
				set["string-escaped-newline"] = true
			}
			if strings.Contains(t.lex, "\\") {
				set["string-escape"] = true
			}
			if strings.Contains(strings.ToLower(t.lex), "</style") || strings.Contains(t.lex, "<!--") || strings.Contains(t.lex, "]]>") {
				set["string-markup"] = true
			}
		case c09CssURL:
			set["url-unquoted"] = true
			if strings.Contains(t.lex, "\\") {
				set["url-escape"] = true
			}
		case c09CssBadString:
			set["bad-string"] = true
		case c09CssBadURL:
			set["bad-url"] = true
		case c09CssCDO, c09CssCDC:
			set["cdo-cdc"] = true
		case c09CssHash:
			set["hash"] = true
		case c09CssAtKeyword:
			set["at-keyword"] = true
		case c09CssFunction:
			if strings.EqualFold(t.lex, "url(") {
				set["url-quoted"] = true
			}
			if strings.EqualFold(t.lex, "calc(") {
				set["calc"] = true
			}
		case c09CssIdent:
			if strings.Contains(t.lex, "\\") {
				set["ident-escape"] = true
				if n := len(t.lex); n > 0 && (t.lex[n-1] == ' ' || t.lex[n-1] == '\n' || t.lex[n-1] == '\t') {
					set["ident-escape-terminator"] = true
				}
			}
			if strings.HasPrefix(t.lex, "--") {
				set["custom-ident"] = true
			} else if strings.HasPrefix(t.lex, "-") {
				set["dash-ident"] = true
			}
		case c09CssDelim:
			if (t.lex == "+" || t.lex == "-") && depth > 0 && t.ws && i+1 < len(ts) && ts[i+1].ws {
				set["calc-spaced-operator"] = true
			}
			if t.lex == "!" {
				set["bang"] = true
			}
		}
		if i == 0 {
			continue
		}
		p := ts[i-1]
		sep := "tight"
		if t.ws {
			sep = "spaced"
		}
		switch {
		case p.tt == c09CssIdent && t.tt == c09CssIdent:
			set["ident-ident"] = true
		case c09CssIsNum(p.tt) && t.tt == c09CssIdent:
			set["num-ident-"+sep] = true
			if p.tt == c09CssNumber && (strings.HasPrefix(strings.ToLower(t.lex), "e")) {
				set["num-e-ident"] = true
			}
		case p.tt == c09CssNumber && t.tt == c09CssDelim && t.lex == "%":
			set["num-percent-sign"] = true
		case c09CssIsNum(p.tt) && c09CssIsNum(t.tt):
			set["num-num-"+sep] = true
			if t.lex[0] == '.' {
				set["num-dotnum-"+sep] = true
			}
			if t.lex[0] == '+' || t.lex[0] == '-' {
				set["num-signednum-"+sep] = true
			}
			if p.tt == c09CssDimension && strings.HasSuffix(strings.ToLower(p.lex), "e") {
				set["dim-e-num"] = true
			}
		case p.tt == c09CssIdent && t.tt == c09CssLParen:
			set["ident-paren-"+sep] = true
		case p.tt == c09CssDelim && p.lex == "/" && t.tt == c09CssDelim && t.lex == "*":
			set["slash-star"] = true
		case p.tt == c09CssDelim && p.lex == "*" && t.tt == c09CssDelim && t.lex == "/":
			set["star-slash"] = true
		case p.tt == c09CssDelim && p.lex == "<" && t.tt == c09CssDelim && t.lex == "!":
			set["lt-bang"] = true
		case p.tt == c09CssDelim && (p.lex == "-" || p.lex == "+" || p.lex == "." || p.lex == "#" || p.lex == "@") && (t.tt == c09CssIdent || c09CssIsNum(t.tt)):
			set["delim"+p.lex+"-"+sep] = true
		case (p.tt == c09CssRParen || p.tt == c09CssURL) && (t.tt == c09CssIdent || c09CssIsNum(t.tt) || t.tt == c09CssHash):
			set["closeparen-word-"+sep] = true
		case (p.tt == c09CssHash || p.tt == c09CssIdent) && (c09CssIsNum(t.tt) || t.tt == c09CssIdent):
			set["word-word-"+sep] = true
		}
	}
	if strings.Contains(out, "!important") {
		set["important"] = true
	}
	if strings.Contains(out, "/*") {
		set["comment-kept"] = true
	}
	var r []string
	for k := range set {
		r = append(r, k)
	}
	sort.Strings(r)
	return r
}

// ---------- second witness: the dependency lexer ----------

// c09CssWitness compares token boundaries of the spec tokeniser (all tokens, from the raw reply) with those of the
// dependency lexer on the same bytes; returns a description of the first disagreement outside the documented
// differences, or "".
func c09CssWitness(src string, reply string) string {
	b, ok, _ := h.DecodeReply(reply)
	if !ok {
		return ""
	}
	mine := map[int]bool{}
	f := strings.Fields(string(b))
	pos := 0
	for i := 0; i+1 < len(f); i += 2 {
		n, _ := strconv.Atoi(f[i+1])
		pos += n
		mine[pos] = true
	}
	l := pcss.NewLexer(parse.NewInputString(src))
	pos = 0
	type span struct {
		a, b int
		tt   pcss.TokenType
	}
	var theirs []span
	for {
		tt, d := l.Next()
		if tt == pcss.ErrorToken {
			break
		}
		theirs = append(theirs, span{pos, pos + len(d), tt})
		pos += len(d)
	}
	dep := map[int]bool{}
	for _, s := range theirs {
		dep[s.b] = true
	}
	// documented differences: quoted url (one token there, function+string+`)` here), unicode-range, match tokens and
	// `||` (removed from CSS Syntax 3), `--` (identifier here), `\` at EOF, bad-url recovery, white space after `url(`
	lenientTok := func(s span) bool {
		switch s.tt {
		case pcss.URLToken, pcss.BadURLToken, pcss.UnicodeRangeToken, pcss.IncludeMatchToken, pcss.DashMatchToken, pcss.PrefixMatchToken,
			pcss.SuffixMatchToken, pcss.SubstringMatchToken, pcss.ColumnToken, pcss.CustomPropertyNameToken, pcss.CustomPropertyValueToken, pcss.BadStringToken:
			return true
		}
		if s.tt == pcss.DelimToken && (src[s.a] == '\\' || src[s.a] == '-' || src[s.a] == 'u' || src[s.a] == 'U') {
			return true
		}
		return s.tt == pcss.IdentToken && (src[s.a] == 'u' || src[s.a] == 'U') && s.b-s.a == 1
	}
	// positions where exactly one of the two has a boundary
	var ps []int
	for p := range mine {
		if !dep[p] {
			ps = append(ps, p)
		}
	}
	for p := range dep {
		if !mine[p] {
			ps = append(ps, p)
		}
	}
	sort.Ints(ps)
	ti := 0
	for _, p := range ps {
		for ti < len(theirs) && theirs[ti].b < p-1 {
			ti++
		}
		ok := false
		for j := ti; j < len(theirs) && theirs[j].a <= p; j++ {
			if lenientTok(theirs[j]) {
				ok = true
			}
		}
		if !ok {
			a := p - 24
			if a < 0 {
				a = 0
			}
			e := p + 24
			if e > len(src) {
				e = len(src)
			}
			// `--` starts an identifier in CSS Syntax 3 (`0.50-->` = dimension `0.50--` + `>`), `u+1calc(` = `u` + dimension
			// `+1calc` + `(`; a backslash at the end of the input is an identifier
			win := src[a:e]
			if strings.Contains(win, "--") || strings.Contains(win, "u+") || strings.Contains(win, "U+") || strings.Contains(win, "\\") {
				continue
			}
			a, e = p-12, p+12
			if a < 0 {
				a = 0
			}
			if e > len(src) {
				e = len(src)
			}
			return fmt.Sprintf("boundary at byte %d (%q|%q): spec=%v lexer=%v", p, src[a:p], src[p:e], mine[p], dep[p])
		}
	}
	return ""
}

// ---------- known findings of this slice (narrow syntactic triggers on the INPUT) ----------

func c09CssTrigger(k c09CssCase, in []c09CssTok, inOpen bool) []string {
	var ids []string
	add := func(id string) {
		for _, x := range ids {
			if x == id {
				return
			}
		}
		ids = append(ids, id)
	}
	src := k.src
	if inOpen {
		add("K-C09-CSS-8") // the input ends inside a string / url / escape: the appended `}` is swallowed
		if len(in) > 0 && (in[len(in)-1].tt == c09CssURL || in[len(in)-1].tt == c09CssString && len(in) > 1 && in[len(in)-2].tt == c09CssFunction) {
			add("K-C09-CSS-6") // … and a url cut off by EOF loses its last byte
		}
	}
	if c09CssHexCRLF.MatchString(src) {
		add("K-C09-CSS-10") // hex escape terminated by CRLF: the dependency lexer takes the CR only
		for _, t := range in {
			if (t.tt == c09CssString || t.tt == c09CssBadString) && c09CssHexCRLF.MatchString(t.lex) {
				// … inside a string: for the dependency lexer the LF ends the string (bad-string), CSS Syntax 3 reads on: the two
				// readings differ from there to the end of the sheet (brackets, open constructs), as in error recovery
				add("K-C09-CSS-10#string")
			}
		}
	}
	if c09CssStrayCloser(in) {
		add("K-C09-CSS-9") // unmatched `)` / `]` in a declaration: error recovery of the dependency parser
	}
	if c09CssCount(in, c09CssBadURL) == 0 && strings.Contains(strings.ToLower(src), "url(") {
		// `url("a" x)`: function + string + more in CSS Syntax 3, a bad-url up to the FIRST `)` for the dependency lexer,
		// which leaves the real `)` unmatched: the same error recovery
		l := pcss.NewLexer(parse.NewInputString(src))
		for {
			tt, _ := l.Next()
			if tt == pcss.ErrorToken {
				break
			}
			if tt == pcss.BadURLToken {
				add("K-C09-CSS-9")
			}
		}
	}
	for i, t := range in {
		// a lone backslash (in front of a newline)
		if t.tt == c09CssDelim && t.lex == "\\" {
			add("K-C09-CSS-3")
		}
		if i+1 >= len(in) {
			break
		}
		n := in[i+1]
		// `<` `!` `--`: white space around `!` is dropped by the parser
		if t.tt == c09CssDelim && t.lex == "<" && n.tt == c09CssDelim && n.lex == "!" {
			add("K-C09-CSS-3")
		}
	}
	if strings.Contains(src, "*/") {
		// comment directly between two tokens that merge when it is dropped (selector / prelude)
		for i := 1; i < len(in); i++ {
			a, b := in[i-1], in[i]
			if !b.ws && b.cmt && c09CssWouldMerge(a, b) {
				add("K-C09-CSS-5")
			}
		}
	}
	// attribute selector flag other than i/I behind an identifier or string value
	inAttr := false
	for i, t := range in {
		if t.tt == c09CssLBracket {
			inAttr = true
		} else if t.tt == c09CssRBracket {
			inAttr = false
		} else if inAttr && i > 0 && t.ws && c09CssIsNum(t.tt) &&
			(in[i-1].tt == c09CssIdent || in[i-1].tt == c09CssString || c09CssIsNum(in[i-1].tt) || in[i-1].tt == c09CssHash) {
			add("K-C09-CSS-4")
		}
	}
	return ids
}

var c09CssHexCRLF = regexp.MustCompile(`\\[0-9a-fA-F]{1,6}\r\n`)

func c09CssNameByte(c byte) bool {
	return c == '-' || c == '_' || c == '\\' || c >= 0x80 || (c >= '0' && c <= '9') || (c >= 'a' && c <= 'z') || (c >= 'A' && c <= 'Z')
}

// lexeme ends in `\` + 1–6 hex digits (no terminating white space)
func c09CssOpenHexEscape(lex string) bool {
	n := 0
	i := len(lex) - 1
	for i >= 0 && n < 6 && ((lex[i] >= '0' && lex[i] <= '9') || (lex[i] >= 'a' && lex[i] <= 'f') || (lex[i] >= 'A' && lex[i] <= 'F')) {
		i--
		n++
	}
	if n == 0 || i < 0 || lex[i] != '\\' {
		return false
	}
	// the backslash itself must not be escaped
	b := 0
	for j := i - 1; j >= 0 && lex[j] == '\\'; j-- {
		b++
	}
	return b%2 == 0
}

// a closing bracket that closes the wrong bracket, or a `)` / `]` that closes nothing
func c09CssStrayCloser(ts []c09CssTok) bool {
	var st []int
	for _, t := range ts {
		switch t.tt {
		case c09CssLBrace, c09CssLBracket, c09CssLParen, c09CssFunction:
			st = append(st, t.tt)
		case c09CssRBrace, c09CssRBracket, c09CssRParen:
			if len(st) == 0 {
				if t.tt != c09CssRBrace {
					return true
				}
				continue
			}
			o := st[len(st)-1]
			okc := (t.tt == c09CssRBrace && o == c09CssLBrace) || (t.tt == c09CssRBracket && o == c09CssLBracket) ||
				(t.tt == c09CssRParen && (o == c09CssLParen || o == c09CssFunction))
			if !okc {
				return true
			}
			st = st[:len(st)-1]
		}
	}
	return false
}

func c09CssExplained(ids []string, failed string) string {
	for _, id := range ids {
		if c09CssKnownExplains(id, failed) {
			if i := strings.IndexByte(id, '#'); i >= 0 {
				return id[:i]
			}
			return id
		}
	}
	return ""
}

// which failure signatures a known finding accounts for (a failure with another signature is still a failure)
func c09CssKnownExplains(id, failed string) bool {
	written := strings.HasPrefix(failed, "tokens of the written value")
	outside := strings.HasPrefix(failed, "token stream outside declaration values")
	value := strings.HasPrefix(failed, "string/url value")
	open := strings.HasPrefix(failed, "output ends inside")
	switch id {
	case "K-C09-CSS-3":
		return written || open || strings.HasPrefix(failed, "brackets balanced") || outside // `\` + newline + `}` becomes `\}`
	case "K-C09-CSS-4", "K-C09-CSS-5":
		return outside
	case "K-C09-CSS-10":
		return written || value || outside
	case "K-C09-CSS-6", "K-C09-CSS-8", "K-C09-CSS-9", "K-C09-CSS-10#string":
		return true // error recovery on malformed input: any of the checks may notice
	}
	return false
}

func c09CssWouldMerge(a, b c09CssTok) bool {
	word := func(t c09CssTok) bool {
		return t.tt == c09CssIdent || c09CssIsNum(t.tt) || t.tt == c09CssHash || t.tt == c09CssAtKeyword || t.tt == c09CssFunction || t.tt == c09CssURL
	}
	if word(a) && a.tt != c09CssFunction && a.tt != c09CssURL && word(b) {
		return true
	}
	if a.tt == c09CssIdent && b.tt == c09CssLParen {
		return true
	}
	if a.tt == c09CssDelim && (word(b) || b.tt == c09CssDelim) {
		return true
	}
	return word(a) && b.tt == c09CssDelim && (b.lex == "%" || b.lex == "-" || b.lex == "\\")
}

// ---------- running a batch of cases ----------

type c09CssRun struct {
	k          c09CssCase
	out, out2  string
	err2       error
	crash2     string
	lineIn     int // spec.c09.css.tokens src
	lineOut    int
	lineValIn  int
	lineValOut int
	lineClIn   int
	lineClOut  int
	linePlan   int
	prop       string
	outValue   string
	inValue    string
}

func c09CssValues(reply string) ([]string, error) {
	b, ok, msg := h.DecodeReply(reply)
	if !ok {
		return nil, fmt.Errorf("spec.c09.css.values: %s", msg)
	}
	var r []string
	for _, p := range h.DecodeListReply(b) {
		r = append(r, string(p))
	}
	return r, nil
}

// c09CssJudge: the checks (2)–(5) of the header for one (input, output) pair; "" = fine
func c09CssJudge(k c09CssCase, in, out []c09CssTok, valIn, valOut []string, clIn, clOut string) string {
	// (2) block structure
	if c09CssBalanced(in) {
		if !c09CssBalanced(out) {
			return "brackets balanced in the input, unbalanced in the output"
		}
		if a, b := c09CssSkeleton(in), c09CssSkeleton(out); a != b {
			return fmt.Sprintf("block skeleton changed: %s -> %s", string(trunc([]byte(a), 80)), string(trunc([]byte(b), 80)))
		}
	}
	// (3) bad tokens, open end
	if c09CssCount(out, c09CssBadString) > c09CssCount(in, c09CssBadString) {
		return "bad-string token created"
	}
	if c09CssCount(out, c09CssBadURL) > c09CssCount(in, c09CssBadURL) {
		return "bad-url token created"
	}
	if len(clIn) == 4 && len(clOut) == 4 && clIn[2] == '1' && clOut[2] == '0' {
		return "output ends inside a string, url, comment or escape; the input did not"
	}
	// (4) string / url values; documented rewrites: family names are ASCII case-insensitive (font, font-family lower-case
	// them), the IE filter string `progid:DXImageTransform.Microsoft.Alpha(Opacity=N)` is shortened to `alpha(opacity=N)`
	have := map[string]int{}
	haveFold := map[string]int{}
	const progid = "progid:DXImageTransform.Microsoft.Alpha(Opacity="
	for _, v := range valIn {
		have[v[1:]]++
		haveFold[strings.ToLower(v[1:])]++
		if strings.HasPrefix(v[1:], progid) {
			have["alpha(opacity="+v[1+len(progid):]]++
		}
	}
	for _, v := range valOut {
		val := v[1:]
		if len(val) >= 5 && strings.EqualFold(val[:5], "data:") {
			continue
		}
		if have[val] == 0 {
			if val == strings.ToLower(val) && haveFold[val] > 0 && c09CssHasFontDecl(out) {
				haveFold[val]--
				continue
			}
			return fmt.Sprintf("string/url value %q of the output is not a value of the input", val)
		}
		have[val]--
	}
	// (5) everything but declaration values (after a bad-string / bad-url the two readings of "what is a value"
	// drift apart: error recovery, not judged here)
	if c09CssCount(in, c09CssBadString)+c09CssCount(in, c09CssBadURL) > 0 || !c09CssBalanced(in) {
		return ""
	}
	a, b := c09CssMask(in, k.inline), c09CssMask(out, k.inline)
	for i := 0; i < len(a) || i < len(b); i++ {
		x, y := "<end>", "<end>"
		if i < len(a) {
			x = a[i]
		}
		if i < len(b) {
			y = b[i]
		}
		if x != y {
			return fmt.Sprintf("token stream outside declaration values changed at item %d: %q -> %q", i, x, y)
		}
	}
	return ""
}

// c09CssLexersAgree: every token boundary of the dependency lexer on the input is a boundary of a plain maximal-munch
// reading too (cheap pre-check in Go; the writer check compares with lexemes tokenised one by one, which is only
// meaningful when the dependency lexer does not split what CSS Syntax 3 reads as one token, e.g. `---a`, `1--a`), and the
// brackets of the input are balanced (otherwise the value does not end where the text says)
func c09CssLexersAgree(src string) bool {
	l := pcss.NewLexer(parse.NewInputString(src))
	var st []byte
	prevEnd := byte(0)
	prevTT := pcss.ErrorToken
	for {
		tt, d := l.Next()
		if tt == pcss.ErrorToken {
			break
		}
		switch tt {
		case pcss.LeftBraceToken, pcss.LeftBracketToken, pcss.LeftParenthesisToken, pcss.FunctionToken:
			st = append(st, d[len(d)-1])
		case pcss.RightBraceToken, pcss.RightBracketToken, pcss.RightParenthesisToken:
			if len(st) == 0 {
				return false
			}
			o := st[len(st)-1]
			if (d[0] == '}' && o != '{') || (d[0] == ']' && o != '[') || (d[0] == ')' && o != '(') {
				return false
			}
			st = st[:len(st)-1]
		}
		// `-` or a number directly in front of `--x` / `-x`: one identifier or dimension in CSS Syntax 3
		if (tt == pcss.CustomPropertyNameToken || tt == pcss.IdentToken) && len(d) > 0 && d[0] == '-' &&
			(prevEnd == '-' || prevTT == pcss.NumberToken || prevTT == pcss.DelimToken && prevEnd == '#' || prevTT == pcss.DelimToken && prevEnd == '@') {
			return false
		}
		if prevTT == pcss.UnicodeRangeToken && (tt == pcss.IdentToken || tt == pcss.NumberToken || tt == pcss.DimensionToken || tt == pcss.PercentageToken ||
			tt == pcss.FunctionToken || tt == pcss.URLToken || tt == pcss.UnicodeRangeToken || tt == pcss.CustomPropertyNameToken || tt == pcss.DelimToken && (d[0] == '-' || d[0] == '%' || d[0] == '.' || d[0] == '?')) {
			return false // `u+11px`: ident `u` and dimension `+11px` in CSS Syntax 3
		}
		if tt == pcss.LeftParenthesisToken && prevTT == pcss.CustomPropertyNameToken {
			return false // `--a(`: a function token in CSS Syntax 3
		}
		if tt == pcss.DelimToken && d[0] == '\\' {
			return false
		}
		if prevTT == pcss.DelimToken && prevEnd == '-' && d[0] == '-' {
			return false // `--1px`: an identifier in CSS Syntax 3
		}
		prevTT = tt
		prevEnd = d[len(d)-1]
	}
	return len(st) == 0
}

func c09CssHasFontDecl(ts []c09CssTok) bool {
	for i, t := range ts {
		if t.tt == c09CssIdent && i+1 < len(ts) && ts[i+1].tt == c09CssColon && (strings.EqualFold(t.lex, "font") || strings.EqualFold(t.lex, "font-family")) {
			return true
		}
	}
	return false
}

func c09CssRunCases(c *Ctx, st *h.Stage, cases []c09CssCase) error {
	var runs []*c09CssRun
	var lines []string
	add := func(l string) int { lines = append(lines, l); return len(lines) - 1 }
	for _, k := range cases {
		out, err, crash := c09CssMinify(k.src, k.inline, k.css2, k.prec)
		if crash != "" {
			c.R.Add(h.Finding{Stage: st.Name, Kind: "crash", What: crash, Input: k.src, Hex: h.HexS(k.src), Config: k.cfg()})
			continue
		}
		if err != nil {
			st.Count(k.key(), false)
			st.Tag("rejected")
			continue
		}
		r := &c09CssRun{k: k, out: out, linePlan: -1}
		r.crash2 = h.Safely(30*time.Second, func() {
			r.out2, r.err2, _ = c09CssMinify(out, k.inline, k.css2, k.prec)
		})
		r.lineIn = add("spec.c09.css.tokens " + h.HexS(k.src))
		r.lineOut = add("spec.c09.css.tokens " + h.HexS(out))
		r.lineValIn = add("spec.c09.css.values " + h.HexS(k.src))
		r.lineValOut = add("spec.c09.css.values " + h.HexS(out))
		r.lineClIn = add("spec.c09.css.closed " + h.HexS(k.src))
		r.lineClOut = add("spec.c09.css.closed " + h.HexS(out))
		if k.decl && k.prec == 0 && c09CssLexersAgree(k.src) {
			// the single declaration of the input, as the dependency parser delivers it (the model's contract)
			evs, _ := c04Parse(k.src, k.inline)
			var decl *c04Event
			nd := 0
			for i := range evs {
				if evs[i].gt == pcss.DeclarationGrammar {
					decl = &evs[i]
					nd++
				}
			}
			shape := (k.inline && len(evs) == 1) || (!k.inline && len(evs) == 3 && evs[0].gt == pcss.BeginRulesetGrammar && evs[2].gt == pcss.EndRulesetGrammar)
			pre := string("")
			if nd == 1 && shape {
				pre = string(decl.data) + ":"
				if !k.inline {
					pre = "a{" + pre
				}
				if strings.HasPrefix(out, pre) && (k.inline || strings.HasSuffix(out, "}")) {
					r.prop = string(decl.data)
					if i := strings.IndexByte(k.src, ':'); i >= 0 {
						r.inValue = k.src[i+1:]
						if !k.inline {
							r.inValue = strings.TrimSuffix(r.inValue, "}")
						}
					}
					r.outValue = out[len(pre):]
					if !k.inline {
						r.outValue = r.outValue[:len(r.outValue)-1]
					}
					r.linePlan = add("model.c09.css.plan " + h.Bool(k.css2) + " " + h.Hex(decl.data) + " " + c04Groups(decl.vals))
				}
			}
		}
		runs = append(runs, r)
	}
	rep, err := h.Eval(lines)
	if err != nil {
		return err
	}
	// second batch: the writer check needs the plan
	var lines2 []string
	joinLine := map[*c09CssRun]int{}
	for _, r := range runs {
		if r.linePlan < 0 {
			continue
		}
		b, ok, _ := h.DecodeReply(rep[r.linePlan])
		if !ok {
			continue
		}
		parts := h.DecodeListReply(b)
		if len(parts) < 3 || string(parts[0]) != "S" {
			st.Tag("plan=outside-model")
			continue
		}
		joinLine[r] = len(lines2)
		if string(parts[1]) == "1" {
			// raw path: nothing is rewritten, the written value must be the input value token for token
			// (`!important` is re-spelt; the lexemes of the dependency lexer are not used at all here)
			st.Tag("plan=raw")
			want := r.inValue
			if string(parts[2]) == "1" {
				if i := strings.LastIndexByte(want, '!'); i >= 0 {
					want = want[:i] + "!important"
				}
			}
			lines2 = append(lines2, "spec.c09.css.joined "+h.HexS(r.outValue)+" "+h.List([][]byte{[]byte(want)}))
		} else {
			st.Tag("plan=values")
			lines2 = append(lines2, "spec.c09.css.joined "+h.HexS(r.outValue)+" "+h.List(parts[3:]))
		}
	}
	rep2, err := h.Eval(lines2)
	if err != nil {
		return err
	}
	for _, r := range runs {
		k := r.k
		in, err := c09CssDecode(k.src, rep[r.lineIn])
		if err != nil {
			return err
		}
		out, err := c09CssDecode(r.out, rep[r.lineOut])
		if err != nil {
			return err
		}
		valIn, err := c09CssValues(rep[r.lineValIn])
		if err != nil {
			return err
		}
		valOut, err := c09CssValues(rep[r.lineValOut])
		if err != nil {
			return err
		}
		bi, _, _ := h.DecodeReply(rep[r.lineClIn])
		bo, _, _ := h.DecodeReply(rep[r.lineClOut])
		clIn, clOut := string(bi), string(bo)
		st.Count(k.key(), r.out != k.src)
		if k.tag != "" {
			st.Tag("gen=" + k.tag)
		}
		for _, hz := range c09CssHazards(out, r.out) {
			st.Tag("hazard=" + hz)
		}
		inOpen := len(clIn) == 4 && clIn[2] == '0'
		known := c09CssTrigger(k, in, inOpen)
		failed := ""
		if r.crash2 != "" {
			failed = "second pass crashed: " + r.crash2
		} else if r.err2 != nil {
			failed = "second pass fails: " + r.err2.Error()
		}
		if failed == "" {
			failed = c09CssJudge(k, in, out, valIn, valOut, clIn, clOut)
		}
		if failed == "" {
			if li, ok := joinLine[r]; ok {
				b, ok2, msg := h.DecodeReply(rep2[li])
				if !ok2 {
					return fmt.Errorf("spec.c09.css.joined: %s", msg)
				}
				st.Tag("writer-check=done")
				if string(b) != "1" {
					failed = fmt.Sprintf("tokens of the written value are not the tokens the minifier chose (first difference at significant token %s of %q)", strings.TrimPrefix(string(b), "0 "), r.outValue)
				}
			}
		}
		if failed == "" {
			if w := c09CssWitness(r.out, rep[r.lineOut]); w != "" {
				c.R.Add(h.Finding{Stage: st.Name, Kind: "diff", What: "spec tokeniser and dependency lexer disagree on the output: " + w, Input: k.src, Hex: h.HexS(k.src), Config: k.cfg(), Impl: r.out})
			}
		}
		if r.out2 == r.out {
			st.Tag("second-pass=fixed-point")
		} else if r.err2 == nil && r.crash2 == "" {
			st.Tag("second-pass=differs")
			if os.Getenv("C09CSS_DEBUG") == "3" && len(known) == 0 && len(k.src) < 120 {
				fmt.Fprintf(os.Stderr, "NONIDEM %q => %q => %q | %s\n", k.src, r.out, r.out2, k.cfg())
			}
			if failed == "" && len(known) == 0 {
				// the second pass must be a valid minification of the first output
				c09CssSecond = append(c09CssSecond, c09CssCase{src: r.out, inline: k.inline, css2: k.css2, prec: k.prec, tag: "second-pass"})
			}
		}
		if failed != "" {
			if id := c09CssExplained(known, failed); id != "" {
				if os.Getenv("C09CSS_DEBUG") == "2" {
					fmt.Fprintf(os.Stderr, "KNOWN %s %s | %q => %q | %s\n", id, failed, trunc([]byte(k.src), 300), trunc([]byte(r.out), 300), k.cfg())
				}
				c.R.ExcludedKnown++
				st.Tag("known=" + id)
			} else {
				if os.Getenv("C09CSS_DEBUG") != "" {
					fmt.Fprintf(os.Stderr, "FAIL %s | %q => %q | %s\n", failed, trunc([]byte(k.src), 300), trunc([]byte(r.out), 300), k.cfg())
				}
				c.R.Add(h.Finding{Stage: st.Name, Kind: "fail", What: failed, Input: k.src, Hex: h.HexS(k.src), Config: k.cfg(), Impl: r.out})
			}
		} else if len(known) > 0 {
			c.R.ExcludedKnown++
			st.Tag("trigger-without-failure=" + known[0])
		}
	}
	return nil
}

// outputs whose second pass differed: re-judged as inputs of their own (the second pass must be a valid
// minification of the first output)
var c09CssSecond []c09CssCase

// ---------- generators ----------

var c09CssSeps = []string{"", "", " ", " ", " ", "  ", "\n", "\t", "\r\n", "\f", "/**/", " /**/ ", "/* x */"}

var c09CssValueToks = []string{
	"a", "e", "e3", "E", "em", "x-y", "-a", "--a", "a\\31 ", "a\\/", "a\\)", "\\31 a", "u", "U", "url", "not", "\\-", "\xc3\xa9", "red", "RED", "inherit", "none", "auto",
	"1", "1.0", ".5", "0.50", "+1", "-2", "1e3", "1E+3", "1e-2", "00.10", "10.0", "0", "+.5", "-.0",
	"10%", "1.0%", "0%", "100%",
	"1em", "1e", "1.0e", "1px", "0.0px", "0px", "2n", "1x000", "1\\31 ", "1.50em", "0deg", "90deg", "1e3px", "1--a",
	"#fff", "#ff0000", "#a", "#FFFFFF", "#\\31 ", "#-a",
	"\"a\"", "'b c'", "\"\\\"\"", "\"a\\\nb\"", "\"a\\\r\nb\"", "\"</style>\"", "'<!--'", "\"]]>\"", "'\\27'", "\"\\\\\"", "''",
	"url(a)", "url( \"a b\" )", "url('x(y')", "url(a\\)b)", "url(abcdefghijklm)", "url( \"abcdefghi jkl\" )", "url('abcdefghijkl')", "url( abcdefghijkl\\ m )",
	"url(data:image/png;base64,AAAA)", "url(\"abcdefgh\\\nijklm\")", "URL(abcdefghijklmn)", "url()", "url(\"\")", "url( 'a\\'bcdefghijklm' )",
	"f(1,2)", "calc(1px + 2px)", "calc(1px - -2px)", "calc(1px+2px)", "calc( (1px + 2px) * 3 )", "rgb(255,0,0)", "rgba(0,0,0,.5)", "rgba(0,0,0,1)", "hsl(0,100%,50%)",
	"var(--a,1.0)", "var(--a, )", "f(a b)", "f()", "min(1px,2px)", "f(g(1)h)", "translate(-50%,-50%)", "attr(x)", "f(1.0 .5)", "f(1e 3)", "F(A)", "f(1/2)", "f(a/ *b)",
	"format(\"woff\")", "local(A B)", "rotate(0deg)", "f(+1.0)", "f(1 + 2)", "f(a=b)", "f(1.0px .5)", "f(rgb(0,0,0) a)", "f(rgb(0,0,0),a)",
	"/", "*", "+", "-", "<", "!", "=", ".", ">", "~", "|", "^", "$", "@", "#", "?", "&", "%", ",", ":",
	"u+1", "U+0-7F", "u+1??", "U+26",
	"<!--", "-->", "@a", "!ie", "\\9",
	"(", ")", "[a]", "(a)", "[", "]",
}

// tokens that provoke the known findings; used with lower probability so that the clean classes dominate
var c09CssKnownToks = []string{"\"\\31\\\n2\"", "\"x\\31\\\n y\"", "url(\"abcdefghijkl\\31\\\n2\")", "f(rgb(0,0,0)a)", "f(1.0.5)", "f(rgb(255,0,0)10%)", "\\\n", "f(rgba(0,0,0,1)1)", "f(1e0.5)", "f(hsl(0,100%,50%)x)"}

var c09CssProps = []string{"b", "x-y", "margin", "color", "width", "font-family", "content", "grid-area", "border", "outline", "flex", "transform", "src", "z-index",
	"background-position", "font-weight", "unicode-range", "box-shadow", "filter", "-ms-filter", "border-color", "background-size", "*zoom", "_height", "cursor", "quotes", "transition"}

func c09CssValue(r *h.RNG, n int) string {
	var sb strings.Builder
	for i := 0; i < n; i++ {
		if i > 0 {
			sb.WriteString(r.Pick(c09CssSeps))
		}
		if r.Chance(2) {
			sb.WriteString(r.Pick(c09CssKnownToks))
		} else {
			sb.WriteString(r.Pick(c09CssValueToks))
		}
	}
	return sb.String()
}

func c09CssImportant(r *h.RNG) string {
	if r.Chance(80) {
		return ""
	}
	return r.Pick([]string{"!important", " !important", " ! important", "!IMPORTANT", "! important ", "!important;"})
}

func c09CssDeclCases(r *h.RNG, n int) []c09CssCase {
	var cs []c09CssCase
	for i := 0; i < n; i++ {
		prop := r.Pick(c09CssProps)
		val := c09CssValue(r, 1+r.Intn(5))
		d := prop + ":" + r.Pick([]string{"", "", " "}) + val + c09CssImportant(r)
		k := c09CssCase{inline: r.Chance(30), css2: r.Chance(30), decl: true, tag: "decl"}
		if r.Chance(15) {
			k.prec = 3
		}
		if k.inline {
			k.src = d
		} else {
			k.src = "a{" + d + "}"
		}
		cs = append(cs, k)
	}
	return cs
}

// every ordered pair of value tokens with a tight and a spaced separator (the adjacent-pair classes, exhaustively)
func c09CssPairCases() []c09CssCase {
	var cs []c09CssCase
	for _, a := range c09CssValueToks {
		for _, b := range c09CssValueToks {
			for _, sep := range []string{"", " ", "/**/"} {
				cs = append(cs, c09CssCase{src: "a{b:" + a + sep + b + "}", decl: true, tag: "pair"})
			}
		}
	}
	return cs
}

// pairs inside a function
func c09CssArgPairCases(r *h.RNG, n int) []c09CssCase {
	var cs []c09CssCase
	inner := []string{"a", "e", "1", "1.0", ".5", "+1", "-2", "1e3", "10%", "1.0%", "1px", "1.0e", "0.0px", "#fff", "\"a\"", "url(a)", "rgb(0,0,0)", "rgba(0,0,0,.5)", "g(1)",
		"/", "*", "+", "-", ",", "<", "!", "=", ".", "--a", "-a", "calc(1px + 2px)", "u+1", "\\31 ", "a\\31 ", "(", ")", "(a)", "hsl(0,100%,50%)", "1e0", "00", "0.50"}
	for i := 0; i < n; i++ {
		m := 2 + r.Intn(3)
		var sb strings.Builder
		for j := 0; j < m; j++ {
			if j > 0 {
				sb.WriteString(r.Pick([]string{"", "", " ", " ", ",", ", ", " , ", "/**/", " + ", " - ", "/", " / "}))
			}
			sb.WriteString(r.Pick(inner))
		}
		fn := r.Pick([]string{"f", "calc", "var", "min", "linear-gradient", "rgb", "translate", "rotate", "url", "alpha", "image-set", "-webkit-gradient", "hypot"})
		prop := r.Pick([]string{"b", "width", "background", "color", "transform", "filter", "margin"})
		cs = append(cs, c09CssCase{src: "a{" + prop + ":" + fn + "(" + sb.String() + ")}", css2: r.Chance(25), decl: true, tag: "args"})
	}
	return cs
}

var c09CssSelParts = []string{"a", "A", "div", "*", ".a", ".A-b", "#a", "#A", "[a]", "[a=b]", "[a=\"b\"]", "[a=\"b c\"]", "[a='b' i]", "[a=b i]", "[A=B I]", "[a~=b]", "[a|=\"en\"]", "[a^='x']", "[a$=x]", "[a*=x]",
	"[ns|a=b]", "[a=\"1\"]", "[a=\"-b\"]", "[a=\"b\\\"c\"]", "[a=\"b\\\nc\"]", "[ a = \"b\" ]", ":hover", ":HOVER", "::before", ":not(.a)", ":not(a > b)", ":not([a=\"b\"])", ":is(a , b)", ":has(> img)", ":nth-child(2n + 1)", ":nth-child( 2n - 1 )",
	":nth-child(odd)", ":nth-of-type(-n+3)", ":lang(en)", ".a\\:b", ".a\\31 ", "#\\31 23", ".\\31 0", "a\\/", "\\31 a", "a|b", "*|*", "|a", ":root", "::-webkit-x", ":not(:nth-child(2n+1))", "\xc3\xa9", ".a\\ b",
	"[a=\"b\" s]"}

var c09CssCombs = []string{" ", "  ", ">", " > ", "> ", " >", "+", " + ", "~", " ~ ", ",", " , ", ", ", "\n", " || ", "/**/ ", " /**/", ""}

func c09CssSelector(r *h.RNG) string {
	n := 1 + r.Intn(4)
	var sb strings.Builder
	for i := 0; i < n; i++ {
		if i > 0 {
			sb.WriteString(r.Pick(c09CssCombs))
		}
		sb.WriteString(r.Pick(c09CssSelParts))
	}
	return sb.String()
}

var c09CssAtRules = []string{
	"@charset \"utf-8\";", "@import url(foo.css);", "@import url( \"foo bar.css\" ) screen;", "@import 'a.css' screen , print;", "@import url(ab);", "@import url( a\\)b );",
	"@import url(\"a.css\") (min-width:1px);", "@namespace svg url(http://www.w3.org/2000/svg);", "@namespace \"x\";",
	"@media screen{%R}", "@media screen and (min-width : 100px){%R}", "@media (min-width:1px) and (max-width:2px){%R}", "@media not all and (monochrome){%R}",
	"@media screen , print and (orientation:landscape){%R}", "@media (aspect-ratio: 16 / 9){%R}", "@media (min-resolution:.5dppx){%R}", "@MEDIA SCREEN{%R}",
	"@media only screen and (-webkit-min-device-pixel-ratio:1.5),only screen and (min-resolution:144dpi){%R}", "@media (400px <= width <= 700px){%R}",
	"@supports (display:grid){%R}", "@supports not (display:grid){%R}", "@supports (a:b) and (c:d){%R}", "@supports (--a:b) or (not (c:d)){%R}", "@supports selector(a > b){%R}",
	"@font-face{font-family:\"A B\";src:url(a.woff) format(\"woff\"),url('b.ttf');unicode-range:U+0-7F,u+1??}", "@font-face{font-family:A;src:local(\"A\"),url(a.eot?#iefix)format(\"embedded-opentype\")}",
	"@page :first{margin:1in}", "@page{margin:0 0 0 0}", "@keyframes k{from{a:b}50%{c:d}to{e:f}}", "@-webkit-keyframes k{0%{a:b}100.0%{c:d}}",
	"@foo bar;", "@foo { a b ; c }", "@foo bar{ x:y; {z} }", "@layer a , b;", "@layer a{%R}", "@container (min-width:1px){%R}", "@document url(x){%R}", "@media screen { @media (x){%R} }",
	"@import url(x);", "@media screen/**/and (x){%R}",
}

var c09CssDecls = []string{
	"color:red", "color : RED", "margin:0px 0px", "margin:1px 2px 1px 2px!important", "width:calc(100% - 10px)", "width:calc( 1px + 2px )", "background:url(a.png) no-repeat", "background:url( \"a b.png\" )",
	"background-image:url(data:image/gif;base64,R0lGODlhAQABAAAAACH5BAEKAAEALAAAAAABAAEAAAICTAEAOw==)", "content:\"\\201C\"", "content:'a\\\nb'", "content:\"</style>\"", "content:'<!--' \"]]>\"",
	"font:12px/1.5 \"A B\",serif", "font-family:\"Helvetica Neue\",Arial", "font-weight:bold", "*zoom:1", "_height:1px", "filter:progid:DXImageTransform.Microsoft.Alpha(Opacity=50)",
	"filter:alpha(opacity=50)", "-ms-filter:\"progid:DXImageTransform.Microsoft.Alpha(Opacity=50)\"", "width:expression(document.body.clientWidth > 800 ? \"800px\" : \"auto\")",
	"--x:{a:b}", "--y: 1 + 2 ", "--z:", "--w: ;", "--q:\"a;b\"", "--e:(a;b)", "color:var(--x, red)", "transform:translate( -50% , -50% ) rotate(0deg)", "transition:all .3s ease-in-out,color 1.0s",
	"background:linear-gradient(to right,rgba(255,255,255,0) 0%,#fff 100%)", "background:linear-gradient(rgb(255,0,0) 10%,blue)", "grid-template-areas:\"a b\" \"c d\"", "grid-area:1 / 2 / 3 / 4",
	"quotes:\"\\\"\" \"\\\"\"", "margin:-1px -2px", "margin:+.5em", "z-index:+1", "flex:1 1 0px", "color:#FF0000", "color:rgba(0,0,0,.5)", "b:c!ie", "b:c\\9", "color:red\\9", "b:a/ *c", "b:1 /2",
	"src:url(a)format(\"x\")", "unicode-range:U+26", "b:<!-- a -->", "b:url(a b)", "b:\"x", "b:", "b", ":c", "b:c;;", "b:(a;b)", "b:[a;b]", "b:{a;b}", "b:f(a;b)",
}

func c09CssRules(r *h.RNG, n int) string {
	var sb strings.Builder
	for i := 0; i < n; i++ {
		sb.WriteString(c09CssSelector(r))
		sb.WriteString(r.Pick([]string{"{", " {", "{ ", " {\n"}))
		m := r.Intn(4)
		for j := 0; j < m; j++ {
			if r.Chance(25) {
				sb.WriteString(r.Pick(c09CssProps) + ":" + c09CssValue(r, 1+r.Intn(3)))
			} else {
				sb.WriteString(r.Pick(c09CssDecls))
			}
			sb.WriteString(r.Pick([]string{";", "; ", ";\n", " ;", ";;"}))
		}
		if r.Chance(50) {
			sb.WriteString(r.Pick(c09CssDecls))
		}
		sb.WriteString(r.Pick([]string{"}", "}\n", " } "}))
	}
	return sb.String()
}

func c09CssSheet(r *h.RNG) string {
	var sb strings.Builder
	n := 1 + r.Intn(5)
	for i := 0; i < n; i++ {
		switch {
		case r.Chance(10):
			sb.WriteString(r.Pick([]string{"/*! keep */", "/* drop */", "/*# sourceMappingURL=a.map */", "<!--", "-->", "/*!  keep\n  this */", "/**/"}))
		case r.Chance(35):
			at := r.Pick(c09CssAtRules)
			sb.WriteString(strings.ReplaceAll(at, "%R", c09CssRules(r, 1+r.Intn(2))))
		default:
			sb.WriteString(c09CssRules(r, 1))
		}
		sb.WriteString(r.Pick([]string{"", "", "\n", " "}))
	}
	return sb.String()
}

// regression corpus: defects already repaired in /repo (must pass) and hand-written hazards
var c09CssFixedCorpus = []string{
	"a{b:c / *d;e:f}g{h:i}", "a{b:1 / *}g{h:i}", "a{b:foo(bar(1)/ *2)}g{h:i}", "a{b:* /c}", "a{b:var(--a,1+2)}", "a{b:foo(1E3-0.00)}", "a{b:1x000}",
	"a{b:calc(1px + 2px)}", "a{b:calc(1px - -2px)}", "a{b:calc(1px+2px)}", "a{b:a (b)}", "a{b:a\\31  b}", "a{b:a\\31 b}", "a{b:1 em}", "a{b:1 e3}", "a{b:1 -2}", "a{b:1.0 .5}",
	"a{b:1e 3}", "a{b:- a}", "a{b:# a}", "a{b:@ a}", "a{b:. 5}", "a{b:u+1 ?}", "a{b:url( \"a b\" ) c}", "a{b:a\\/ b}", "a{b:a\\) b}", "a{b:< !-- a}", "a{b:- ->}",
	"a{rotate:0deg}", "a{b:hypot(0px,3px)}", "a{color:rgb(255,0%,0)}", "a{width:1.5e10px}",
	// a933f35 (K-C09-CSS-1, -2, -7, -11)
	"a{background:linear-gradient(rgb(255,0,0)10%,blue)}", "a{b:f(rgb(0,0,0)a)}", "a{b:f(hsl(0,100%,50%)(a))}", "a{b:f(rgba(0,0,0,1)1)}", "a{b:rotate(rgb(0,0,0)- u)}",
	"a{b:f(1.0.5)}", "a{b:f(1e0.5)}", "a{b:f(a1.0%)}", "a{b:f(-a0.0px,url(a))}", "a{b:f(--a1.0% / 2)}", "a{b:f(\\31 +1)}", "a{b:f(\\31 0.0px + +11.0)}", "a{b:f(a\\31 1.0%,g(1))}",
	"a{b:a\\9/**/b}", "a{b:a\\9/**/ b}", "a{b:\\9/**/(a)}", "a{b:\\9/**/-->}", "a{b:\\9/**/+1}", "a{b:f(a\\9/**/b)}", "a{quotes:0px /**/ \\9/**/1x000!IMPORTANT}",
	"a{b:\"\\31\\\n2\"}", "a{b:\"x\\31\\\n y\"}", "a{b:\"\\31\\\n\\\n2\\41\\\r\nx\"}", "a{b:url(\"abcdefghijkl\\31\\\n2\")}",
	// 71d92ee, addcaae
	"[a=b s]{c:d}", "[a=\"b\" S]{c:d}", "[a=b x]{c:d}", "[a=\"b\\31\" i]{c:d}", "@import url(x);", "@import url( \"x\" );", "@namespace Foo \"u\";Foo|a{b:c}", "a::part(Foo){b:c}",
}

func c09CssFiles(c *Ctx) []string {
	var files []string
	for _, pat := range []string{"_benchmarks/*.css", "tests/css/corpus/*"} {
		m, _ := filepath.Glob(filepath.Join(c.Repo, pat))
		files = append(files, m...)
	}
	sort.Strings(files)
	return files
}

// ---------- stages ----------

func c09CssStages(c *Ctx) error {
	r := c.Rng.Fork()
	c09CssSecond = nil

	st := c.R.StartStage("c09-css-pairs", "every ordered pair of "+strconv.Itoa(len(c09CssValueToks))+" value tokens (identifiers with escapes, numbers, dimensions, hashes, strings, urls, functions, delimiters, CDO/CDC, brackets), written tight, with a space and with a comment between them, as the value of one declaration: real css.Minify, second pass, spec tokeniser on input and output (structure, bad tokens, open end, string/url values, non-value tokens) and the writer check (tokens of the written value = tokens chosen by the minifier); non-trivial = output differs from input")
	pairs := c09CssPairCases()
	if !c.Thorough() && !c.Search {
		// a seeded fifth of the pair space in the quick tier
		var sub []c09CssCase
		for _, k := range pairs {
			if r.Intn(5) == 0 {
				sub = append(sub, k)
			}
		}
		pairs = sub
	} else {
		st.Exhaustive = true
	}
	if err := c09CssRunCases(c, st, pairs); err != nil {
		return err
	}
	st.End()

	st = c.R.StartStage("c09-css-decl", "generated declarations: 1–5 value tokens from the pool with random separators (none, spaces, newlines, comments), 27 property names (rewritten and passed-through ones, IE hacks), `!important` spellings, stylesheet and inline mode, KeepCSS2 on/off, Precision 0/3; pairs of function arguments; the fixed regression corpus; same checks; non-trivial = output differs from input")
	var cases []c09CssCase
	for _, s := range c09CssFixedCorpus {
		cases = append(cases, c09CssCase{src: s, decl: strings.HasPrefix(s, "a{"), tag: "fixed-corpus"})
	}
	cases = append(cases, c09CssDeclCases(r, c.N(4000, 150000))...)
	cases = append(cases, c09CssArgPairCases(r, c.N(3000, 100000))...)
	if c.Search {
		cases = append(cases, c09CssDeclCases(r, 100000)...)
	}
	if err := c09CssRunCases(c, st, cases); err != nil {
		return err
	}
	st.End()

	st = c.R.StartStage("c09-css-sheet", "generated style sheets: selectors (attribute strings, escapes, combinators with and without spaces, :not()/:is()/:nth-child(), namespaces), at-rules (@charset, @import url(), @media, @supports, @font-face, @page, @keyframes, unknown at-rules, nested), custom properties with blocks, IE hacks, expression(), strings with markup and escaped newlines, kept comments, CDO/CDC; stylesheet mode, KeepCSS2 on/off, Precision 0/3; same checks on the whole sheet; non-trivial = output differs from input")
	cases = nil
	for i, n := 0, c.N(3000, 80000); i < n; i++ {
		k := c09CssCase{src: c09CssSheet(r), css2: r.Chance(25), tag: "sheet"}
		if r.Chance(15) {
			k.prec = 3
		}
		cases = append(cases, k)
	}
	for _, at := range c09CssAtRules {
		cases = append(cases, c09CssCase{src: strings.ReplaceAll(at, "%R", "a{b:c}"), tag: "at-rule"})
	}
	for _, s := range c09CssSelParts {
		cases = append(cases, c09CssCase{src: s + "{b:c}", tag: "selector"}, c09CssCase{src: "x " + s + " y{b:c}", tag: "selector"})
	}
	for _, d := range c09CssDecls {
		cases = append(cases, c09CssCase{src: "a{" + d + "}", tag: "decl-list"}, c09CssCase{src: "a{" + d + ";c:d}e{f:g}", tag: "decl-list"}, c09CssCase{src: d, inline: true, tag: "decl-list"})
	}
	if err := c09CssRunCases(c, st, cases); err != nil {
		return err
	}
	st.End()

	st = c.R.StartStage("c09-css-docs", "real-world sized sheets: every *.css of /repo/_benchmarks and tests/css/corpus whole (KeepCSS2 off/on, Precision 0/3), sheets composed of several of them with generated rules spliced in between, and every distinct declaration of those files run alone (writer check); same checks; non-trivial = output differs from input")
	cases = nil
	var docs []string
	seen := map[string]bool{}
	for _, f := range c09CssFiles(c) {
		b, err := os.ReadFile(f)
		if err != nil || len(b) == 0 {
			continue
		}
		docs = append(docs, string(b))
		cases = append(cases, c09CssCase{src: string(b), tag: "file"})
		if c.Thorough() || len(b) < 60000 {
			cases = append(cases, c09CssCase{src: string(b), css2: true, tag: "file"}, c09CssCase{src: string(b), prec: 3, tag: "file"})
		}
		evs, _ := c04Parse(string(b), false)
		for _, e := range evs {
			if e.gt != pcss.DeclarationGrammar || len(e.vals) == 0 {
				continue
			}
			d := string(e.data) + ":" + c04TokStr(e.vals)
			if seen[d] || len(d) > 4000 {
				continue
			}
			seen[d] = true
			if c.Thorough() || r.Intn(6) == 0 {
				cases = append(cases, c09CssCase{src: "a{" + d + "}", decl: true, css2: r.Chance(20), tag: "file-decl"})
			}
		}
	}
	for i, n := 0, c.N(2, 40); i < n && len(docs) > 0; i++ {
		var sb strings.Builder
		for j, m := 0, 2+r.Intn(3); j < m; j++ {
			sb.WriteString(r.Pick(docs))
			sb.WriteString("\n")
			sb.WriteString(c09CssSheet(r))
		}
		cases = append(cases, c09CssCase{src: sb.String(), css2: r.Chance(30), tag: "composed"})
	}
	if err := c09CssRunCases(c, st, cases); err != nil {
		return err
	}
	st.End()

	st = c.R.StartStage("c09-css-second", "outputs of the stages above whose second pass was not a fixed point: the first output as input of its own (the second pass must be a valid minification of it: same checks); non-trivial = second pass output differs")
	second := c09CssSecond
	c09CssSecond = nil
	if err := c09CssRunCases(c, st, second); err != nil {
		return err
	}
	st.End()
	c09CssSecond = nil

	c09CssKnown(c)
	return nil
}

// the slice alone: `corr C09CSS` (development aid; `corr C09` runs it as part of the property)
func init() { register("C09CSS", func(c *Ctx) error { return c09CssStages(c) }) }

// replay of the open known findings of this slice
func c09CssKnown(c *Ctx) {
	for _, k := range h.Known("C09") {
		if !strings.HasPrefix(k.ID, "K-C09-CSS-") || k.Status != "open" {
			continue
		}
		in := k.ReplayStr("input")
		if in == "" {
			continue
		}
		inline, _ := k.Replay["inline"].(bool)
		out, err, crash := c09CssMinify(in, inline, false, 0)
		observed := out
		if crash != "" {
			observed = crash
		} else if err != nil {
			observed = "error: " + err.Error()
		}
		still := observed == k.ReplayStr("observed")
		if exp := k.ReplayStr("expected"); exp != "" && observed == exp {
			still = false
		}
		c.R.AddKnown(k.ID, still, k.What, observed)
	}
}

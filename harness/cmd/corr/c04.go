package main

// C04 — CSS minification preserves the cascade input.
//
// Stages
//   tables   live css.ShortenColorHex / css.ToHash vs the regenerated Lean tables
//   num      minify.Number/Decimal(…,0) vs model.c04.num on an enumerated lexeme grammar
//   decl     generated declarations (every modelled property × value shapes) through the real css.Minify in
//            stylesheet and inline mode, KeepCSS2 on/off: bytes vs model.c04.decl, and — independent of the
//            model — the value oracle spec.c04.holds on the real output re-tokenised by the dependency parser
//   sheet    generated stylesheets (nested at-rules, selectors, comments, custom properties): rule structure and
//            selectors of input vs output, every declaration through the oracle
//   sweep    /repo/_benchmarks/*.css (+ tests/css corpus if present): every distinct declaration through
//            model and oracle, whole-file structure check
//   known    replay of the open known findings

import (
	"bytes"
	"fmt"
	"os"
	"path/filepath"
	"sort"
	"strconv"
	"strings"
	"time"

	"github.com/tdewolff/minify/v2"
	"github.com/tdewolff/minify/v2/css"
	"github.com/tdewolff/parse/v2"
	pcss "github.com/tdewolff/parse/v2/css"

	"verifharness/h"
)

type c04Tok struct {
	tt   pcss.TokenType
	data []byte
}

type c04Event struct {
	gt   pcss.GrammarType
	tt   pcss.TokenType
	data []byte
	vals []c04Tok
}

// c04Parse runs the dependency parser (the contract the model is stated against) and copies every event.
func c04Parse(src string, inline bool) (evs []c04Event, perr bool) {
	p := pcss.NewParser(parse.NewInputString(src), inline)
	for {
		gt, tt, data := p.Next()
		if gt == pcss.ErrorGrammar && !p.HasParseError() {
			return evs, perr
		}
		if gt == pcss.ErrorGrammar {
			perr = true
		}
		ev := c04Event{gt: gt, tt: tt, data: append([]byte{}, data...)}
		for _, v := range p.Values() {
			ev.vals = append(ev.vals, c04Tok{v.TokenType, append([]byte{}, v.Data...)})
		}
		evs = append(evs, ev)
		if len(evs) > 2000000 {
			return evs, true
		}
	}
}

// c04Minify calls the real code through its public API.
func c04Minify(src string, inline, css2 bool) (out string, err error, crash string) {
	crash = h.Safely(20*time.Second, func() {
		m := minify.New()
		o := &css.Minifier{KeepCSS2: css2}
		var w bytes.Buffer
		var params map[string]string
		if inline {
			params = map[string]string{"inline": "1"}
		}
		err = o.Minify(m, &w, strings.NewReader(src), params)
		out = w.String()
	})
	return
}

func c04Groups(ts []c04Tok) string {
	gs := make([][][]byte, len(ts))
	for i, t := range ts {
		gs[i] = [][]byte{[]byte(fmt.Sprint(int(t.tt))), t.data}
	}
	return h.Groups(gs)
}

// c04SplitImportant mirrors only the *syntax* of `!important` (CSS Syntax 3 §5.4.4: ASCII case-insensitive),
// independent of how the minifier recognises it.
func c04SplitImportant(ts []c04Tok) ([]c04Tok, bool) {
	n := len(ts)
	for n > 0 && ts[n-1].tt == pcss.WhitespaceToken {
		n--
	}
	if n >= 2 && ts[n-1].tt == pcss.IdentToken && strings.EqualFold(string(ts[n-1].data), "important") {
		k := n - 2
		for k >= 0 && ts[k].tt == pcss.WhitespaceToken {
			k--
		}
		if k >= 0 && ts[k].tt == pcss.DelimToken && string(ts[k].data) == "!" {
			for k > 0 && ts[k-1].tt == pcss.WhitespaceToken {
				k--
			}
			return ts[:k], true
		}
	}
	return ts[:n], false
}

func c04TokStr(ts []c04Tok) string {
	var b strings.Builder
	for _, t := range ts {
		b.Write(t.data)
	}
	return b.String()
}

// ---------- structure oracle (rules, at-rules, selectors), independent of the model ----------

func c04IsIdent(b []byte) bool { return pcss.IsIdent(b) }

// c04NormSelector: identifiers outside classes and attribute selectors are ASCII case-insensitive in HTML
// documents; an attribute value may be written as identifier or string.
func c04NormSelector(ev c04Event) string {
	var sb strings.Builder
	inAttr, isClass := false, false
	toks := ev.vals
	for _, t := range toks {
		d := string(t.data)
		switch {
		case !inAttr && t.tt == pcss.IdentToken:
			if !isClass {
				d = strings.ToLower(d)
			}
			isClass = false
		case !inAttr && t.tt == pcss.DelimToken && d == ".":
			isClass = true
		case !inAttr && t.tt == pcss.LeftBracketToken:
			inAttr = true
		case inAttr && t.tt == pcss.RightBracketToken:
			inAttr = false
		case inAttr && t.tt == pcss.StringToken && len(d) > 2 && c04IsIdent(t.data[1:len(t.data)-1]):
			d = d[1 : len(d)-1]
		case inAttr && t.tt == pcss.WhitespaceToken:
			d = " "
		}
		if t.tt != pcss.IdentToken && !(t.tt == pcss.DelimToken && d == ".") {
			isClass = false
		}
		sb.WriteString(d)
	}
	// the text of the selector with insignificant white space removed by the parser on both sides; a token
	// boundary that moved without changing the text (`2N + 1` / `2N+1`) is the same selector
	return sb.String()
}

// c04NormPrelude: at-rule prelude up to insignificant white space; `@import url(x)` ≡ `@import "x"`.
func c04NormPrelude(ev c04Event) string {
	var sb strings.Builder
	sb.WriteString(strings.ToLower(string(ev.data)))
	isImport := strings.EqualFold(string(ev.data), "@import")
	for i, t := range ev.vals {
		if t.tt == pcss.WhitespaceToken {
			continue
		}
		d := string(t.data)
		if isImport && i <= 1 {
			if t.tt == pcss.URLToken && strings.HasSuffix(d, ")") {
				d = strings.TrimSpace(d[4 : len(d)-1])
				if len(d) >= 2 && (d[0] == '"' || d[0] == '\'') {
					d = d[1 : len(d)-1]
				}
				d = "\"" + d + "\""
			} else if t.tt == pcss.StringToken && len(d) >= 2 {
				d = "\"" + d[1:len(d)-1] + "\""
			}
		}
		sb.WriteByte(0)
		sb.WriteString(d)
	}
	return sb.String()
}

type c04DeclPair struct {
	prop    string
	in, out []c04Tok
}

// c04Structure compares the grammar event sequences of input and output and returns the declaration pairs to be
// judged by the value oracle.  problem != "" is a structural difference.
func c04Structure(inEv, outEv []c04Event) (pairs []c04DeclPair, problem string) {
	filter := func(evs []c04Event) []c04Event {
		var r []c04Event
		for _, e := range evs {
			if e.gt == pcss.CommentGrammar {
				continue // comments are not cascade input
			}
			r = append(r, e)
		}
		return r
	}
	a, b := filter(inEv), filter(outEv)
	if len(a) != len(b) {
		return nil, fmt.Sprintf("%d grammar events in the input, %d in the output", len(a), len(b))
	}
	for i := range a {
		x, y := a[i], b[i]
		if x.gt != y.gt {
			return nil, fmt.Sprintf("event %d: %s in the input, %s in the output", i, x.gt, y.gt)
		}
		switch x.gt {
		case pcss.DeclarationGrammar:
			if !bytes.Equal(x.data, y.data) {
				return nil, fmt.Sprintf("event %d: property %q became %q", i, x.data, y.data)
			}
			xi, ximp := c04SplitImportant(x.vals)
			yi, yimp := c04SplitImportant(y.vals)
			if ximp != yimp {
				return nil, fmt.Sprintf("event %d: !important of %q changed", i, x.data)
			}
			pairs = append(pairs, c04DeclPair{string(x.data), xi, yi})
		case pcss.CustomPropertyGrammar:
			if !bytes.Equal(x.data, y.data) {
				return nil, fmt.Sprintf("event %d: custom property %q became %q", i, x.data, y.data)
			}
			if strings.TrimSpace(c04TokStr(x.vals)) != strings.TrimSpace(c04TokStr(y.vals)) {
				return nil, fmt.Sprintf("event %d: custom property %s token stream changed: %q -> %q", i, x.data, c04TokStr(x.vals), c04TokStr(y.vals))
			}
		case pcss.BeginRulesetGrammar, pcss.QualifiedRuleGrammar:
			if c04NormSelector(x) != c04NormSelector(y) {
				return nil, fmt.Sprintf("event %d: selector %q became %q", i, c04TokStr(x.vals), c04TokStr(y.vals))
			}
		case pcss.AtRuleGrammar, pcss.BeginAtRuleGrammar:
			if c04NormPrelude(x) != c04NormPrelude(y) {
				return nil, fmt.Sprintf("event %d: at-rule %s%q became %s%q", i, x.data, c04TokStr(x.vals), y.data, c04TokStr(y.vals))
			}
		case pcss.EndAtRuleGrammar, pcss.EndRulesetGrammar:
		default: // TokenGrammar, ErrorGrammar: passed through
			norm := func(e c04Event) string {
				s := string(e.data)
				for _, t := range e.vals {
					if t.tt != pcss.WhitespaceToken {
						s += "\x00" + string(t.data)
					}
				}
				return s
			}
			if norm(x) != norm(y) && strings.TrimSpace(string(x.data)) != strings.TrimSpace(string(y.data)) {
				return nil, fmt.Sprintf("event %d (%s): %q became %q", i, x.gt, norm(x), norm(y))
			}
		}
	}
	return pairs, ""
}

// c04AddDiff records a model/implementation difference, at most ten per stage: the report keeps 40 findings in all, and
// a burst of differences of one stage must not crowd out the failing inputs of a later one.
var c04DiffCount = map[string]int{}

func c04AddDiff(c *Ctx, st *h.Stage, f h.Finding) {
	c04DiffCount[st.Name]++
	if n := c04DiffCount[st.Name]; n <= 10 {
		c.R.Add(f)
	} else if n == 11 {
		c.R.Note("%s: more than ten model/implementation differences, the rest is not listed", st.Name)
	}
}

// ---------- one declaration case ----------

type c04Case struct {
	prop, value string
	important   string // "", "!important", " ! important", …
	inline      bool
	css2        bool
	tag         string
}

func (k c04Case) src() string {
	d := k.prop + ":" + k.value + k.important
	if k.inline {
		return d
	}
	return "a{" + d + "}"
}
func (k c04Case) key() string {
	return fmt.Sprintf("%q inline=%v keepCSS2=%v", k.src(), k.inline, k.css2)
}
func (k c04Case) cfg() string { return fmt.Sprintf("inline=%v KeepCSS2=%v Precision=0", k.inline, k.css2) }

type c04Judged struct {
	k         c04Case
	out       string
	comps     []c04Tok // input components (parser contract), incl. !important
	prop      string
	pair      *c04DeclPair
	structure string
	known     string
	modelLine int
	holdsLine int
}

// c04RunCases runs the real code on every case, then model and oracle in one batch.
func c04RunCases(c *Ctx, st *h.Stage, cases []c04Case, compareModel bool) error {
	var js []*c04Judged
	var lines []string
	for _, k := range cases {
		src := k.src()
		out, err, crash := c04Minify(src, k.inline, k.css2)
		if crash != "" {
			c.R.Add(h.Finding{Stage: st.Name, Kind: "crash", What: crash, Input: src, Hex: h.HexS(src), Config: k.cfg()})
			continue
		}
		if err != nil {
			// not accepted by the minifier: outside the property
			st.Count(k.key(), false)
			st.Tag("rejected")
			continue
		}
		inEv, _ := c04Parse(src, k.inline)
		outEv, _ := c04Parse(out, k.inline)
		j := &c04Judged{k: k, out: out, modelLine: -1, holdsLine: -1}
		// the single declaration of the input
		var decl *c04Event
		nd := 0
		for i := range inEv {
			if inEv[i].gt == pcss.DeclarationGrammar {
				decl = &inEv[i]
				nd++
			}
		}
		wantShape := (k.inline && len(inEv) == 1) || (!k.inline && len(inEv) == 3 && inEv[0].gt == pcss.BeginRulesetGrammar && inEv[2].gt == pcss.EndRulesetGrammar)
		pairs, problem := c04Structure(inEv, outEv)
		j.structure = problem
		if problem == "" && len(pairs) == 1 {
			j.pair = &pairs[0]
		}
		if nd == 1 && wantShape {
			j.comps = decl.vals
			j.prop = string(decl.data)
			j.known = c04Trigger(j.prop, decl.vals, k.css2)
			if compareModel && j.known == "" {
				j.modelLine = len(lines)
				lines = append(lines, "model.c04.decl "+h.Bool(k.css2)+" "+h.Hex(decl.data)+" "+c04Groups(decl.vals))
			}
		} else if decl != nil {
			j.known = c04Trigger(string(decl.data), decl.vals, k.css2)
		}
		if j.pair != nil {
			j.holdsLine = len(lines)
			lines = append(lines, "spec.c04.holds "+h.HexS(j.pair.prop)+" "+c04Groups(j.pair.in)+" "+c04Groups(j.pair.out))
		}
		js = append(js, j)
	}
	if f := os.Getenv("C04_DUMP"); f != "" {
		os.WriteFile(f, []byte(strings.Join(lines, "\n")+"\n"), 0o644)
	}
	rep, err := h.Eval(lines)
	if err != nil {
		return err
	}
	for _, j := range js {
		k := j.k
		src := k.src()
		nontrivial := j.out != src
		st.Count(k.key(), nontrivial)
		if k.tag != "" {
			st.Tag("shape=" + k.tag)
		}
		// (b) the property on the real output, independent of the model
		failed := ""
		if j.structure != "" {
			failed = "structure: " + j.structure
		} else if j.holdsLine >= 0 {
			b, ok, msg := h.DecodeReply(rep[j.holdsLine])
			if !ok {
				return fmt.Errorf("spec.c04.holds: %s", msg)
			}
			if string(b) == "2" {
				st.Tag("oracle=not-judged")
			} else if string(b) != "1" {
				failed = fmt.Sprintf("value of %s changed: %q -> %q", j.pair.prop, c04TokStr(j.pair.in), c04TokStr(j.pair.out))
			}
		}
		if failed != "" {
			if j.known != "" {
				c.R.ExcludedKnown++
				st.Tag("known=" + j.known)
			} else {
				c.R.Add(h.Finding{Stage: st.Name, Kind: "fail", What: failed, Input: src, Hex: h.HexS(src), Config: k.cfg(), Impl: j.out})
			}
		} else if j.known != "" {
			c.R.ExcludedKnown++
			st.Tag("known=" + j.known)
		}
		// (a) correspondence with the model
		if j.modelLine >= 0 {
			b, ok, msg := h.DecodeReply(rep[j.modelLine])
			if !ok {
				c04AddDiff(c, st, h.Finding{Stage: st.Name, Kind: "diff", What: "model.c04.decl: model error " + msg, Input: src, Config: k.cfg(), Impl: j.out})
				continue
			}
			parts := h.DecodeListReply(b)
			if len(parts) == 0 || string(parts[0]) == "N" {
				st.Tag("model=outside")
				continue
			}
			st.Tag("model=compared")
			body := ""
			if len(parts) > 1 {
				body = string(parts[1])
			}
			want := j.prop + ":" + body
			if !k.inline {
				want = "a{" + want + "}"
			}
			if want != j.out {
				c04AddDiff(c, st, h.Finding{Stage: st.Name, Kind: "diff", What: "model.c04.decl", Input: src, Hex: h.HexS(src), Config: k.cfg(), Impl: j.out, Model: want})
			}
		}
	}
	return nil
}

// ---------- known findings: narrow syntactic triggers ----------

func c04IsNumeric(t c04Tok) bool {
	return t.tt == pcss.NumberToken || t.tt == pcss.PercentageToken || t.tt == pcss.DimensionToken
}

func c04IsHex(b []byte) bool {
	for _, c := range b {
		if !(c >= '0' && c <= '9' || c >= 'a' && c <= 'f' || c >= 'A' && c <= 'F') {
			return false
		}
	}
	return true
}

// c04BadColorArgs: rgb()/hsl() arguments that CSS Color 3/4 does not allow (legacy comma syntax with mixed
// numbers and percentages, hsl() saturation/lightness not percentages, hue with a unit the code ignores, wrong count)
func c04BadColorArgs(fn string, args []c04Tok) bool {
	var vals []c04Tok
	commas, slash := 0, 0
	for _, a := range args {
		switch {
		case a.tt == pcss.WhitespaceToken:
		case a.tt == pcss.CommaToken:
			commas++
		case a.tt == pcss.DelimToken && string(a.data) == "/":
			slash++
		default:
			vals = append(vals, a)
		}
	}
	for _, v := range vals {
		if v.tt != pcss.NumberToken && v.tt != pcss.PercentageToken {
			return false // not a shape the minifier touches
		}
	}
	if len(vals) < 3 || len(vals) > 4 {
		return len(vals) > 0
	}
	legacy := commas > 0
	if legacy && (commas != len(vals)-1 || slash != 0) {
		return true
	}
	if !legacy && (slash > 1 || (slash == 1) != (len(vals) == 4)) {
		return true
	}
	if strings.HasPrefix(fn, "rgb") {
		return legacy && !(vals[0].tt == vals[1].tt && vals[1].tt == vals[2].tt)
	}
	return !(vals[0].tt == pcss.NumberToken && vals[1].tt == pcss.PercentageToken && vals[2].tt == pcss.PercentageToken)
}

// c04NumberPrefix returns the length of the longest CSS number prefix of b.
func c04NumberPrefix(b []byte) int {
	i := 0
	if i < len(b) && (b[i] == '+' || b[i] == '-') {
		i++
	}
	d := 0
	for i < len(b) && b[i] >= '0' && b[i] <= '9' {
		i++
		d++
	}
	if i+1 < len(b) && b[i] == '.' && b[i+1] >= '0' && b[i+1] <= '9' {
		i++
		for i < len(b) && b[i] >= '0' && b[i] <= '9' {
			i++
			d++
		}
	}
	if d == 0 {
		return 0
	}
	if i < len(b) && (b[i] == 'e' || b[i] == 'E') {
		k := i + 1
		if k < len(b) && (b[k] == '+' || b[k] == '-') {
			k++
		}
		if k < len(b) && b[k] >= '0' && b[k] <= '9' {
			for k < len(b) && b[k] >= '0' && b[k] <= '9' {
				k++
			}
			i = k
		}
	}
	return i
}

var c04AngleUnits = map[string]bool{"deg": true, "grad": true, "rad": true, "turn": true}
var c04LegacyAngleFns = map[string]bool{"rotate": true, "rotatex": true, "rotatey": true, "rotatez": true, "rotate3d": true, "skew": true, "skewx": true, "skewy": true, "hue-rotate": true,
	"linear-gradient": true, "repeating-linear-gradient": true, "conic-gradient": true, "repeating-conic-gradient": true, "-webkit-linear-gradient": true, "-moz-linear-gradient": true, "-o-linear-gradient": true}
var c04TypedMathFns = map[string]bool{"abs": true, "sign": true, "hypot": true, "atan2": true, "pow": true, "sqrt": true, "mod": true, "rem": true, "sin": true, "cos": true, "tan": true,
	"asin": true, "acos": true, "atan": true, "exp": true, "log": true}
var c04FamilyKeywords = map[string]bool{"serif": true, "sans-serif": true, "cursive": true, "fantasy": true, "monospace": true, "system-ui": true, "ui-serif": true, "ui-sans-serif": true,
	"ui-monospace": true, "ui-rounded": true, "emoji": true, "math": true, "fangsong": true, "inherit": true, "initial": true, "unset": true, "revert": true, "default": true}
var c04WideKeywords = map[string]bool{"inherit": true, "initial": true, "unset": true, "revert": true, "default": true}

// c04Trigger classifies a declaration under one of the open known findings (id of the first that applies).
func c04Trigger(prop string, vals []c04Tok, css2 bool) string {
	vals, _ = c04SplitImportant(vals)
	// function nesting
	var fnStack []string
	for _, t := range vals {
		switch t.tt {
		case pcss.FunctionToken:
			name := strings.ToLower(string(t.data[:len(t.data)-1]))
			fnStack = append(fnStack, name)
			continue
		case pcss.LeftParenthesisToken:
			fnStack = append(fnStack, "(")
			continue
		case pcss.RightParenthesisToken:
			if len(fnStack) > 0 {
				fnStack = fnStack[:len(fnStack)-1]
			}
			continue
		}
		if c04IsNumeric(t) {
			n := c04NumberPrefix(t.data)
			num := string(t.data[:n])
			fn := ""
			if len(fnStack) > 0 {
				fn = fnStack[len(fnStack)-1]
			}
			if fn == "rgb" || fn == "rgba" || fn == "hsl" || fn == "hsla" {
				if v, err := strconv.ParseFloat(num, 64); err == nil {
					if t.tt == pcss.PercentageToken {
						v /= 100
					}
					if (v > 0 && v < 1e-5) || (v > 1-1e-5 && v < 1) {
						return "K-C04-10" // alpha (or a percentage channel) within 1e-5 of 0 or 1 is snapped
					}
				}
			}
		}
		if t.tt == pcss.HashToken && len(t.data) == 9 && t.data[7] == '0' && t.data[8] == '0' && strings.Trim(strings.ToLower(string(t.data[1:7])), "0") != "" && c04IsHex(t.data[1:]) {
			return "K-C04-11" // #rrggbb00 becomes #0000: colour of a fully transparent value changes
		}
		if (prop == "font-family" || prop == "font") && t.tt == pcss.StringToken && len(t.data) > 2 && len(fnStack) == 0 {
			words := strings.Split(strings.ToLower(string(t.data[1:len(t.data)-1])), " ")
			if len(words) == 1 && c04FamilyKeywords[words[0]] {
				return "K-C04-6"
			}
			if len(words) > 1 {
				for _, w := range words {
					if c04WideKeywords[w] {
						return "K-C04-6"
					}
				}
			}
		}
	}
	return ""
}

// ---------- tables ----------

func c04Tables(c *Ctx) {
	st := c.R.StartStage("tables", "css.ToHash on every generated hash name (perfect-hash contract: ToHash(name).String() == name, names are the only non-zero inputs among lower-case probes); non-trivial = name resolves")
	st.Exhaustive = true
	// the generated Lean table is read back through the model: `known` is used by identOf — check through a declaration
	b, err := os.ReadFile(filepath.Join(h.Root(), "lean", "Verif", "Gen", "C04Tables.lean"))
	if err != nil {
		c.R.Note("tables: cannot read generated table: %v", err)
		st.End()
		return
	}
	txt := string(b)
	i := strings.Index(txt, "def hashNames")
	j := strings.Index(txt, "def cssColors")
	if i < 0 || j < i {
		c.R.Add(h.Finding{Stage: st.Name, Kind: "diff", What: "generated table has unexpected shape", Input: "Gen/C04Tables.lean"})
		st.End()
		return
	}
	n := 0
	for _, line := range strings.Split(txt[i:j], "\n") {
		line = strings.TrimSpace(line)
		if !strings.HasPrefix(line, "['") {
			continue
		}
		name := strings.NewReplacer("[", "", "]", "", "'", "", ",", "").Replace(strings.TrimSuffix(line, ","))
		n++
		hh := css.ToHash([]byte(name))
		st.Count(name, hh != 0)
		if hh == 0 || hh.String() != name {
			c.R.Add(h.Finding{Stage: st.Name, Kind: "diff", What: "css.ToHash does not resolve a generated hash name", Input: name, Impl: hh.String()})
		}
	}
	// live ShortenColorHex against the generated one
	i = strings.Index(txt, "def shortenColorHex")
	j = strings.Index(txt, "def shortenColorName")
	live := map[string]string{}
	for k, v := range css.ShortenColorHex {
		live[k] = string(v)
	}
	gen := map[string]string{}
	for _, line := range strings.Split(txt[i:j], "\n") {
		line = strings.TrimSpace(line)
		if !strings.HasPrefix(line, "([") {
			continue
		}
		parts := strings.SplitN(line, "], [", 2)
		if len(parts) != 2 {
			continue
		}
		clean := strings.NewReplacer("(", "", ")", "", "[", "", "]", "", "'", "", ",", "")
		gen[clean.Replace(parts[0])] = clean.Replace(parts[1])
	}
	for k, v := range live {
		st.Count("hex "+k, true)
		if gen[k] != v {
			c.R.Add(h.Finding{Stage: st.Name, Kind: "diff", What: "css.ShortenColorHex differs from the generated table", Input: k, Impl: v, Model: gen[k]})
		}
	}
	if len(gen) != len(live) {
		c.R.Add(h.Finding{Stage: st.Name, Kind: "diff", What: "css.ShortenColorHex size differs from the generated table", Input: fmt.Sprint(len(live)), Model: fmt.Sprint(len(gen))})
	}
	live2 := map[string]string{}
	for k, v := range css.ShortenColorName {
		live2[k.String()] = string(v)
	}
	i = strings.Index(txt, "def shortenColorName")
	j = strings.Index(txt, "def optionalZeroDimension")
	gen = map[string]string{}
	for _, line := range strings.Split(txt[i:j], "\n") {
		line = strings.TrimSpace(line)
		if !strings.HasPrefix(line, "([") {
			continue
		}
		parts := strings.SplitN(line, "], [", 2)
		if len(parts) != 2 {
			continue
		}
		clean := strings.NewReplacer("(", "", ")", "", "[", "", "]", "", "'", "", ",", "")
		gen[clean.Replace(parts[0])] = clean.Replace(parts[1])
	}
	for k, v := range live2 {
		st.Count("name "+k, true)
		if gen[k] != v {
			c.R.Add(h.Finding{Stage: st.Name, Kind: "diff", What: "css.ShortenColorName differs from the generated table", Input: k, Impl: v, Model: gen[k]})
		}
	}
	if len(gen) != len(live2) {
		c.R.Add(h.Finding{Stage: st.Name, Kind: "diff", What: "css.ShortenColorName size differs from the generated table", Input: fmt.Sprint(len(live2)), Model: fmt.Sprint(len(gen))})
	}
	st.End()
}

// ---------- numbers ----------

func c04NumLexemes(c *Ctx) []string {
	digs := []string{"0", "1", "5", "9"}
	var mant []string
	var rec func(prefix string, n int)
	maxLen := c.N(4, 5)
	rec = func(prefix string, n int) {
		if prefix != "" {
			mant = append(mant, prefix)
		}
		if n == 0 {
			return
		}
		for _, d := range digs {
			rec(prefix+d, n-1)
		}
	}
	rec("", maxLen)
	var out []string
	exps := []string{"", "e0", "e1", "E2", "e+3", "e-1", "e-2", "e-5", "e10", "e-10", "e05", "e00"}
	for _, s := range []string{"", "+", "-"} {
		for _, m := range mant {
			// integer, and every position of the dot that leaves a digit behind it
			forms := []string{m}
			for k := 0; k < len(m); k++ {
				forms = append(forms, m[:k]+"."+m[k:])
			}
			for _, f := range forms {
				for _, e := range exps {
					if len(m) > 3 && e != "" && e != "e-2" && e != "e1" {
						continue
					}
					out = append(out, s+f+e)
				}
			}
		}
	}
	// long mantissas / extreme exponents
	for i := 0; i < c.N(300, 5000); i++ {
		r := c.Rng.Fork()
		var sb strings.Builder
		sb.WriteString(r.Pick([]string{"", "", "+", "-"}))
		ni := r.Intn(12)
		for k := 0; k < ni; k++ {
			sb.WriteByte("0001234567899"[r.Intn(13)])
		}
		nf := r.Intn(12)
		if ni == 0 && nf == 0 {
			nf = 1
		}
		if nf > 0 {
			sb.WriteByte('.')
			for k := 0; k < nf; k++ {
				sb.WriteByte("0001234567899"[r.Intn(13)])
			}
		}
		if r.Chance(50) {
			sb.WriteString(r.Pick([]string{"e", "E"}) + r.Pick([]string{"", "+", "-"}) + r.Pick([]string{"0", "1", "2", "3", "7", "12", "20", "100", "007", "9223372036854775807", "9223372036854775808", "2147483648", "99999999999999999999"}))
		}
		out = append(out, sb.String())
	}
	return out
}

func c04Num(c *Ctx) error {
	st := c.R.StartStage("num", "number lexemes [+-]?(d+|d*.d+)([eE][+-]?d+)? with d in {0,1,5,9}, mantissa length <= 4 (quick) / 5 (thorough), 12 exponent spellings, plus seeded long lexemes; minify.Number and minify.Decimal at precision 0 on a fresh copy vs model.c04.num; non-trivial = output differs from input")
	lex := c04NumLexemes(c)
	var cases []h.Case
	for _, l := range lex {
		for _, css2 := range []bool{false, true} {
			buf := []byte(l)
			var got []byte
			crash := h.Safely(5*time.Second, func() {
				if css2 {
					got = minify.Decimal(buf, 0)
				} else {
					got = minify.Number(buf, 0)
				}
			})
			if crash != "" {
				c.R.Add(h.Finding{Stage: st.Name, Kind: "crash", What: crash, Input: l, Config: fmt.Sprintf("decimal=%v", css2)})
				continue
			}
			cases = append(cases, h.Case{Line: "model.c04.num " + h.Bool(css2) + " " + h.HexS(l), Want: append([]byte{}, got...),
				Key: fmt.Sprintf("%q decimal=%v", l, css2), InHex: h.HexS(l), Config: fmt.Sprintf("decimal=%v prec=0", css2), Nontrivial: string(got) != l})
		}
	}
	err := h.CompareAll(c.R, st, "model.c04.num", cases)
	st.End()
	return err
}

// ---------- sweep over real stylesheets ----------

func c04Files(c *Ctx) []string {
	var files []string
	for _, pat := range []string{"_benchmarks/*.css", "tests/css/corpus/*", "tests/css/*.css"} {
		m, _ := filepath.Glob(filepath.Join(c.Repo, pat))
		files = append(files, m...)
	}
	sort.Strings(files)
	return files
}

func c04Sweep(c *Ctx) error {
	st := c.R.StartStage("sweep", "every *.css under /repo/_benchmarks (and tests/css corpus files if present): whole file through css.Minify (KeepCSS2 off/on), rule/at-rule/selector structure of input vs output, and every distinct declaration (property, value tokens) re-serialised and run alone through model and oracle; non-trivial = the minifier changed the declaration")
	files := c04Files(c)
	seen := map[string]bool{}
	var cases []c04Case
	for _, f := range files {
		b, err := os.ReadFile(f)
		if err != nil || len(b) == 0 {
			continue
		}
		src := string(b)
		inEv, _ := c04Parse(src, false)
		for _, css2 := range []bool{false, true} {
			out, err, crash := c04Minify(src, false, css2)
			key := fmt.Sprintf("file %s keepCSS2=%v", filepath.Base(f), css2)
			if crash != "" {
				c.R.Add(h.Finding{Stage: st.Name, Kind: "crash", What: crash, Input: key})
				continue
			}
			if err != nil {
				st.Count(key, false)
				continue
			}
			outEv, _ := c04Parse(out, false)
			_, problem := c04Structure(inEv, outEv)
			st.Count(key, out != src)
			if problem != "" {
				// locate: report only with a concrete small input — re-run the offending rule alone below; the whole
				// file difference itself is noted
				c.R.Note("sweep: %s: structure differs: %s", key, problem)
				st.Tag("structure-differs")
			}
		}
		for _, e := range inEv {
			if e.gt != pcss.DeclarationGrammar || len(e.vals) == 0 {
				continue
			}
			val := c04TokStr(e.vals)
			k := string(e.data) + ":" + val
			if seen[k] || len(k) > 4000 {
				continue
			}
			seen[k] = true
			for _, css2 := range []bool{false, true} {
				cases = append(cases, c04Case{prop: string(e.data), value: val, css2: css2, inline: false, tag: "file"})
			}
		}
	}
	err := c04RunCases(c, st, cases, true)
	st.End()
	return err
}

// ---------- known findings ----------

func c04Known(c *Ctx) {
	for _, k := range h.Known("C04") {
		in := k.ReplayStr("input")
		if k.Status == "fixed" {
			continue
		}
		if k.Status != "open" || in == "" {
			continue
		}
		inline, _ := k.Replay["inline"].(bool)
		css2, _ := k.Replay["keepCSS2"].(bool)
		out, err, crash := c04Minify(in, inline, css2)
		observed := out
		if crash != "" {
			observed = crash
		} else if err != nil {
			observed = "error: " + err.Error()
		}
		still := observed == k.ReplayStr("observed")
		if exp := k.ReplayStr("expected"); exp != "" && observed == exp {
			still = false
		}
		c.R.AddKnown(k.ID, still, k.What, observed)
	}
}

func init() {
	register("C04", func(c *Ctx) error {
		// C04_STAGES=limits,longsheet runs only these stages (development aid; ./check never sets it)
		only := os.Getenv("C04_STAGES")
		want := func(n string) bool { return only == "" || strings.Contains(","+only+",", ","+n+",") }
		if want("tables") {
			c04Tables(c)
		}
		for _, s := range []struct {
			name string
			run  func(*Ctx) error
		}{{"num", c04Num}, {"decl", c04Decl}, {"bgpos", c04BgPos}, {"limits", c04Limits}, {"sheet", c04Sheets}, {"longsheet", c04LongSheets}, {"sweep", c04Sweep}} {
			if !want(s.name) {
				continue
			}
			if err := s.run(c); err != nil {
				return err
			}
		}
		c04Known(c)
		return nil
	})
}

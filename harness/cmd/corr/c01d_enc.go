package main

// C01D — encoding of a parsed JS program (dependency parser parse/v2/js, used as a parser only) into the prefix
// encoding read by lean/Driver/C01D.lean, with the scope-analysis annotations of every identifier occurrence
// (identity of the *js.Var object, identity of the object it is linked to, DeclType of the object).

import (
	"fmt"
	"strconv"
	"strings"

	"github.com/tdewolff/parse/v2"
	pjs "github.com/tdewolff/parse/v2/js"
)

type c01dEnc struct {
	sb   strings.Builder
	ids  map[*pjs.Var]int
	err  error
	annt bool // write annotations (false: zeros, for the output of the minifier where they are meaningless)
}

func (e *c01dEnc) fail(format string, a ...any) {
	if e.err == nil {
		e.err = fmt.Errorf(format, a...)
	}
}

func (e *c01dEnc) tok(s string) {
	e.sb.WriteByte(' ')
	e.sb.WriteString(s)
}

func (e *c01dEnc) id(v *pjs.Var) {
	if v == nil {
		e.fail("nil var")
		return
	}
	name := string(v.Data)
	root := v
	for root.Link != nil {
		root = root.Link
	}
	name = string(root.Data)
	for _, c := range name {
		if !(c >= 'a' && c <= 'z' || c >= 'A' && c <= 'Z' || c >= '0' && c <= '9' || c == '_' || c == '$') {
			e.fail("identifier %q", name)
		}
	}
	if name == "undefined" || name == "NaN" || name == "Infinity" || name == "arguments" || name == "eval" {
		e.fail("identifier %q", name)
	}
	e.tok(name)
	if !e.annt {
		e.tok("0")
		e.tok("0")
		e.tok("0")
		return
	}
	get := func(p *pjs.Var) int {
		if n, ok := e.ids[p]; ok {
			return n
		}
		n := len(e.ids) + 1
		e.ids[p] = n
		return n
	}
	e.tok(strconv.Itoa(get(v)))
	e.tok(strconv.Itoa(get(root)))
	e.tok(strconv.Itoa(int(v.Decl)))
}

func c01dIsZeroLit(x pjs.IExpr) bool {
	l, ok := x.(*pjs.LiteralExpr)
	return ok && (l.TokenType == pjs.DecimalToken || l.TokenType == pjs.IntegerToken) && string(l.Data) == "0"
}

func (e *c01dEnc) expr(x pjs.IExpr) {
	if e.err != nil {
		return
	}
	switch n := x.(type) {
	case *pjs.LiteralExpr:
		if n.TokenType != pjs.DecimalToken && n.TokenType != pjs.IntegerToken {
			e.fail("literal %s", n.Data)
			return
		}
		v, err := strconv.Atoi(string(n.Data))
		if err != nil || v < 0 || v > 100000 || strconv.Itoa(v) != string(n.Data) {
			e.fail("number %s", n.Data)
			return
		}
		e.tok("N")
		e.tok(strconv.Itoa(v))
	case *pjs.Var:
		e.tok("V")
		e.id(n)
	case *pjs.GroupExpr:
		e.tok("G")
		e.expr(n.X)
	case *pjs.CommaExpr:
		e.tok("M")
		e.tok(strconv.Itoa(len(n.List)))
		for _, it := range n.List {
			e.expr(it)
		}
	case *pjs.CondExpr:
		e.tok("C")
		e.expr(n.Cond)
		e.expr(n.X)
		e.expr(n.Y)
	case *pjs.CallExpr:
		if n.Optional {
			e.fail("optional call")
			return
		}
		e.tok("L")
		e.tok(strconv.Itoa(len(n.Args.List)))
		e.expr(n.X)
		for _, a := range n.Args.List {
			if a.Rest {
				e.fail("spread")
				return
			}
			e.expr(a.Value)
		}
	case *pjs.IndexExpr:
		if c01dIsZeroLit(n.X) && c01dIsZeroLit(n.Y) {
			e.tok("U") // 0[0]
			return
		}
		e.fail("index expression")
	case *pjs.UnaryExpr:
		switch n.Op {
		case pjs.NotToken:
			e.tok("NOT")
			e.expr(n.X)
		case pjs.TypeofToken:
			e.tok("TY")
			e.expr(n.X)
		case pjs.VoidToken:
			if c01dIsZeroLit(n.X) {
				e.tok("U")
			} else {
				e.fail("void")
			}
		case pjs.PostIncrToken:
			v, ok := n.X.(*pjs.Var)
			if !ok {
				e.fail("++ target")
				return
			}
			e.tok("P")
			e.id(v)
		default:
			e.fail("unary %s", n.Op)
		}
	case *pjs.BinaryExpr:
		switch n.Op {
		case pjs.EqToken:
			v, ok := n.X.(*pjs.Var)
			if !ok {
				e.fail("assignment target")
				return
			}
			e.tok("A")
			e.id(v)
			e.expr(n.Y)
		case pjs.AddToken, pjs.SubToken, pjs.LtToken, pjs.EqEqEqToken, pjs.AndToken, pjs.OrToken:
			e.tok("B")
			e.tok(string(n.Op.Bytes()))
			e.expr(n.X)
			e.expr(n.Y)
		default:
			e.fail("binary %s", n.Op)
		}
	default:
		e.fail("expression %T", x)
	}
}

func (e *c01dEnc) optExpr(x pjs.IExpr) {
	if x == nil {
		e.tok("O0")
		return
	}
	e.tok("O1")
	e.expr(x)
}

func (e *c01dEnc) varDecl(n *pjs.VarDecl) {
	switch n.TokenType {
	case pjs.VarToken:
		e.tok("D")
		e.tok("var")
	case pjs.LetToken:
		e.tok("D")
		e.tok("let")
	case pjs.ConstToken:
		e.tok("D")
		e.tok("const")
	default:
		e.fail("declaration kind")
		return
	}
	e.tok(strconv.Itoa(len(n.List)))
	for _, it := range n.List {
		v, ok := it.Binding.(*pjs.Var)
		if !ok {
			e.fail("destructuring")
			return
		}
		if it.Default == nil {
			e.tok("V")
			e.id(v)
		} else {
			e.tok("A")
			e.id(v)
			e.expr(it.Default)
		}
	}
}

func (e *c01dEnc) list(l []pjs.IStmt) {
	n := 0
	for _, s := range l {
		if _, ok := s.(*pjs.Comment); !ok {
			n++
		}
	}
	e.tok(strconv.Itoa(n))
	for _, s := range l {
		if _, ok := s.(*pjs.Comment); !ok {
			e.stmt(s)
		}
	}
}

func (e *c01dEnc) stmt(s pjs.IStmt) {
	if e.err != nil {
		return
	}
	switch n := s.(type) {
	case *pjs.ExprStmt:
		e.tok("E")
		e.expr(n.Value)
	case *pjs.VarDecl:
		e.varDecl(n)
	case *pjs.IfStmt:
		e.tok("IF")
		e.expr(n.Cond)
		if n.Body == nil {
			e.tok("EM")
		} else {
			e.stmt(n.Body)
		}
		if n.Else == nil {
			e.tok("AB")
		} else {
			e.stmt(n.Else)
		}
	case *pjs.BlockStmt:
		e.tok("BL")
		e.list(n.List)
	case *pjs.EmptyStmt:
		e.tok("EM")
	case *pjs.ForStmt:
		e.tok("FOR")
		e.tok("0")
		switch in := n.Init.(type) {
		case nil:
			e.tok("EM")
		case *pjs.VarDecl:
			if len(in.List) == 0 {
				e.tok("EM")
			} else {
				e.varDecl(in)
			}
		default:
			e.tok("E")
			e.expr(n.Init)
		}
		e.optExpr(n.Cond)
		e.optExpr(n.Post)
		e.list(n.Body.List)
	case *pjs.WhileStmt:
		e.tok("FOR")
		e.tok("1")
		e.tok("EM")
		e.optExpr(n.Cond)
		e.tok("O0")
		if b, ok := n.Body.(*pjs.BlockStmt); ok {
			e.list(b.List)
		} else {
			e.list([]pjs.IStmt{n.Body})
		}
	case *pjs.ReturnStmt:
		if n.Value == nil {
			e.tok("R0")
		} else {
			e.tok("R")
			e.expr(n.Value)
		}
	case *pjs.ThrowStmt:
		e.tok("TH")
		e.expr(n.Value)
	case *pjs.TryStmt:
		if n.Catch == nil || n.Finally != nil {
			e.fail("try without catch / with finally")
			return
		}
		e.tok("TRY")
		e.list(n.Body.List)
		if n.Binding == nil {
			e.tok("$c")
			e.tok("0")
			e.tok("0")
			e.tok("0")
		} else if v, ok := n.Binding.(*pjs.Var); ok {
			e.id(v)
		} else {
			e.fail("catch destructuring")
			return
		}
		e.list(n.Catch.List)
	case *pjs.FuncDecl:
		if n.Async || n.Generator || n.Name == nil || n.Params.Rest != nil {
			e.fail("function form")
			return
		}
		e.tok("FN")
		e.id(n.Name)
		e.tok(strconv.Itoa(len(n.Params.List)))
		for _, p := range n.Params.List {
			v, ok := p.Binding.(*pjs.Var)
			if !ok || p.Default != nil {
				e.fail("parameter form")
				return
			}
			e.id(v)
		}
		e.list(n.Body.List)
	default:
		e.fail("statement %T", s)
	}
}

// c01dEncode parses src (while statements stay while statements) and returns the encoding of the program.
// perr: the source does not parse; uerr: it is outside the fragment of the Lean side.
func c01dEncode(src string, annotate bool) (enc string, perr, uerr error) {
	ast, err := pjs.Parse(parse.NewInputString(src), pjs.Options{WhileToFor: false})
	if err != nil {
		return "", err, nil
	}
	e := &c01dEnc{ids: map[*pjs.Var]int{}, annt: annotate}
	e.list(ast.BlockStmt.List)
	if e.err != nil {
		return "", nil, e.err
	}
	return strings.TrimSpace(e.sb.String()), nil, nil
}

// ---------- triggers of known findings that are evaluated on the parser's tree (all programs, also outside the Lean
// fragment) ----------

type c01dTrigVisitor struct {
	foreign  *bool          // K-C01D-4
	forLet   *bool          // K-C01D-5
	dangling *bool          // K-C01D-6
	declared []pjs.VarArray // Declared lists of the enclosing function scopes (innermost last)
}

func c01dRoot(v *pjs.Var) *pjs.Var {
	for v.Link != nil {
		v = v.Link
	}
	return v
}

func (t c01dTrigVisitor) own(v *pjs.Var) bool {
	if len(t.declared) == 0 {
		return true
	}
	for _, d := range t.declared[len(t.declared)-1] {
		if d == v {
			return true
		}
	}
	return false
}

type c01dNameVisitor struct{ names map[string]bool }

func (n c01dNameVisitor) Enter(x pjs.INode) pjs.IVisitor {
	if v, ok := x.(*pjs.Var); ok {
		n.names[string(c01dRoot(v).Data)] = true
	}
	return n
}
func (n c01dNameVisitor) Exit(x pjs.INode) {}

func (t c01dTrigVisitor) Enter(x pjs.INode) pjs.IVisitor {
	switch n := x.(type) {
	case *pjs.FuncDecl:
		t.declared = append(append([]pjs.VarArray{}, t.declared...), n.Body.Scope.Declared)
		return t
	case *pjs.ArrowFunc:
		t.declared = append(append([]pjs.VarArray{}, t.declared...), n.Body.Scope.Declared)
		return t
	case *pjs.MethodDecl:
		t.declared = append(append([]pjs.VarArray{}, t.declared...), n.Body.Scope.Declared)
		return t
	case *pjs.IfStmt:
		if n.Else != nil && c01dLoopTailVanishes(n.Body) {
			*t.dangling = true
		}
	case *pjs.BinaryExpr:
		if n.Op == pjs.EqToken {
			if v, ok := n.X.(*pjs.Var); ok && v.Decl == pjs.VariableDecl && !t.own(v) {
				*t.foreign = true
			}
		}
	case *pjs.ForInStmt:
		c01dForLet(t.forLet, []pjs.IExpr{n.Init}, n.Body)
	case *pjs.ForOfStmt:
		c01dForLet(t.forLet, []pjs.IExpr{n.Init}, n.Body)
	case *pjs.ForStmt:
		head := c01dNameVisitor{map[string]bool{}}
		for _, part := range []pjs.IExpr{n.Init, n.Cond, n.Post} {
			if part != nil {
				if d, ok := part.(*pjs.VarDecl); ok && d.TokenType != pjs.VarToken {
					continue // the names of a let / const head are the loop's own
				}
				pjs.Walk(head, part)
			}
		}
		for _, s := range n.Body.List {
			if d, ok := s.(*pjs.VarDecl); ok && d.TokenType != pjs.VarToken {
				for _, it := range d.List {
					if v, ok := it.Binding.(*pjs.Var); ok && head.names[string(v.Data)] {
						*t.forLet = true
					}
				}
			}
		}
	}
	return t
}
func (t c01dTrigVisitor) Exit(x pjs.INode) {}

// c01dForLet: the head of a for-in / for-of loop uses a name that the body declares with let / const
func c01dForLet(flag *bool, parts []pjs.IExpr, body *pjs.BlockStmt) {
	head := c01dNameVisitor{map[string]bool{}}
	for _, part := range parts {
		if part != nil {
			if d, ok := part.(*pjs.VarDecl); ok && d.TokenType != pjs.VarToken {
				continue
			}
			pjs.Walk(head, part)
		}
	}
	for _, s := range body.List {
		if d, ok := s.(*pjs.VarDecl); ok && d.TokenType != pjs.VarToken {
			for _, it := range d.List {
				if v, ok := it.Binding.(*pjs.Var); ok && head.names[string(v.Data)] {
					*flag = true
				}
			}
		}
	}
}

// c01dLoopTailVanishes: the statement is a loop (possibly inside loops / blocks / labels) whose body has at least two
// statements and ends in a statement that can disappear when the body is optimized (var declaration, empty statement,
// block, if): endsInIf looks at that last statement before the body is optimized (K-C01D-6).
func c01dLoopTailVanishes(s pjs.IStmt) bool {
	var list []pjs.IStmt
	switch n := s.(type) {
	case *pjs.ForStmt:
		list = n.Body.List
	case *pjs.ForInStmt:
		list = n.Body.List
	case *pjs.ForOfStmt:
		list = n.Body.List
	case *pjs.WhileStmt:
		if b, ok := n.Body.(*pjs.BlockStmt); ok {
			list = b.List
		} else {
			return c01dLoopTailVanishes(n.Body)
		}
	case *pjs.LabelledStmt:
		return c01dLoopTailVanishes(n.Value)
	case *pjs.BlockStmt:
		if len(n.List) == 1 {
			return c01dLoopTailVanishes(n.List[0])
		}
		return false
	default:
		return false
	}
	if len(list) == 0 {
		return false
	}
	last := list[len(list)-1]
	if in, ok := last.(*pjs.IfStmt); ok && in.Else != nil {
		// the else branch of the last statement can disappear, leaving an if without else
		switch d := in.Else.(type) {
		case *pjs.VarDecl:
			if d.TokenType == pjs.VarToken {
				return true
			}
		case *pjs.EmptyStmt, *pjs.BlockStmt:
			return true
		}
		return c01dLoopTailVanishes(in.Else)
	}
	if len(list) >= 2 {
		switch d := last.(type) {
		case *pjs.VarDecl:
			if d.TokenType == pjs.VarToken {
				return true
			}
		case *pjs.EmptyStmt, *pjs.BlockStmt, *pjs.IfStmt:
			return true
		}
	}
	return c01dLoopTailVanishes(last)
}

// c01dAstTriggers: foreign = an assignment target is marked VariableDecl although the enclosing function does not
// declare it (K-C01D-4); forLet = the head of a for loop uses a name that the loop body declares with let/const
// (K-C01D-5, renaming only); dangling = an if-else whose then-branch is a loop with a tail that can disappear (K-C01D-6).
func c01dAstTriggers(src string) (foreign, forLet, dangling bool) {
	ast, err := pjs.Parse(parse.NewInputString(src), pjs.Options{WhileToFor: false})
	if err != nil {
		return false, false, false
	}
	t := c01dTrigVisitor{foreign: &foreign, forLet: &forLet, dangling: &dangling, declared: []pjs.VarArray{ast.BlockStmt.Scope.Declared}}
	pjs.Walk(t, ast)
	return
}

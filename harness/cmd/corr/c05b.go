package main

// C05B — document loop of /repo/svg/svg.go (+ buffer.go): second half of property C05 "SVG minification preserves
// geometry, references and structure".
//
// Tie (tokens→bytes): an SVG document is lexed with the REAL dependency lexer; the token list goes to the Lean
// model in two steps: `model.c05b.requests` returns the payloads the loop hands to the style sub-minifier and to
// ShortenPathData (the parameters `sub` and `path` of the model); the harness answers them with the real
// functions (m.MinifyMimetype on the same registry; svg.Minify on `<path d=…/>`), then `model.c05b.minify`
// renders the output, which is compared with the bytes of the real svg.Minifier.Minify — stand-alone and
// inline, KeepComments off and on, with css.Minify / no style minifier / a stub that returns markup characters.
//
// Property oracle (independent of the model): encoding/xml trees of input and output compared modulo the
// documented removals, attribute values at VALUE level (c05bJudgeTree); the Lean `spec.c05b.holds` on the token
// lists of input and output (real lexer).  A failing clause is a Finding of kind "fail" unless it is the recorded
// signature of an open known finding whose trigger holds for the input.

import (
	"bytes"
	"encoding/hex"
	"encoding/json"
	"fmt"
	"io"
	"os"
	"path/filepath"
	"reflect"
	"regexp"
	"sort"
	"strconv"
	"strings"
	"time"
	"unsafe"

	"github.com/tdewolff/minify/v2"
	"github.com/tdewolff/minify/v2/css"
	"github.com/tdewolff/minify/v2/html"
	"github.com/tdewolff/minify/v2/svg"
	"github.com/tdewolff/parse/v2"
	pxml "github.com/tdewolff/parse/v2/xml"

	"verifharness/h"
)

// ---------- real lexer ----------

type c05bTok struct {
	tt                  pxml.TokenType
	data, text, attrVal []byte
	bare                bool
}

func c05bLex(src []byte) []c05bTok {
	b := make([]byte, len(src), len(src)+1)
	copy(b, src)
	z := parse.NewInputBytes(b)
	defer z.Restore()
	l := pxml.NewLexer(z)
	var out []c05bTok
	for {
		tt, data := l.Next()
		if tt == pxml.ErrorToken {
			return out
		}
		t := c05bTok{tt: tt, data: append([]byte{}, data...), text: append([]byte{}, l.Text()...)}
		if tt == pxml.AttributeToken {
			t.attrVal = append([]byte{}, l.AttrVal()...)
			t.bare = l.AttrVal() == nil
		}
		out = append(out, t)
	}
}

func c05bGroups(ts []c05bTok) string {
	gs := make([][][]byte, len(ts))
	for i, t := range ts {
		kind := int(t.tt)
		if t.bare {
			kind = 12
		}
		gs[i] = [][]byte{[]byte(strconv.Itoa(kind)), t.data, t.text, t.attrVal}
	}
	return h.Groups(gs)
}

// ---------- real code ----------

type c05bCfg struct {
	inline, keepComments bool
	sub                  string // "css" | "none" | "stub"
}

func (c c05bCfg) String() string {
	return fmt.Sprintf("inline=%v keepComments=%v sub=%s", c.inline, c.keepComments, c.sub)
}

// c05bStub is a style "minifier" that keeps the length but produces markup characters, quotes and white space,
// so that the re-escaping of its output is exercised.
func c05bStub(m *minify.M, w io.Writer, r io.Reader, params map[string]string) error {
	b, _ := io.ReadAll(r)
	out := make([]byte, 0, len(b))
	for i, c := range b {
		switch {
		case c == ':':
			out = append(out, '"')
		case c == ';':
			out = append(out, '\'')
		case c == '{' && params["inline"] != "1":
			out = append(out, '<')
		case c == '}' && params["inline"] != "1":
			out = append(out, '&')
		case c == ' ' && i%2 == 0:
			// dropped
		default:
			out = append(out, c)
		}
	}
	_, err := w.Write(out)
	return err
}

func c05bRegistry(sub string) *minify.M {
	m := minify.New()
	switch sub {
	case "css":
		m.AddFunc("text/css", css.Minify)
	case "stub":
		m.AddFunc("text/css", c05bStub)
	}
	return m
}

func c05bMinify(src []byte, cfg c05bCfg) (out []byte, err error, crash string) {
	crash = h.Safely(30*time.Second, func() {
		var w bytes.Buffer
		m := c05bRegistry(cfg.sub)
		var params map[string]string
		o := &svg.Minifier{KeepComments: cfg.keepComments}
		if cfg.inline {
			params = map[string]string{"inline": "1"} // the way html.Minify asks for it
		}
		err = o.Minify(m, &w, bytes.NewReader(append([]byte{}, src...)), params)
		out = w.Bytes()
	})
	return
}

// c05bPath answers a `path` request with the real ShortenPathData (public: svg.NewPathData, ShortenPathData) on a
// Minifier whose unexported `newPrecision` is set to the value Minify computes for Precision 0 (15).  The field is
// reached through reflect+unsafe; when it no longer exists the answer is taken from svg.Minify on `<path d=…/>`
// (exact only for payloads that buffer.go and the dimension rewrite leave unchanged).
func c05bPath(payload []byte) (out []byte, ok bool) {
	if len(payload) == 0 {
		return payload, true
	}
	o := &svg.Minifier{}
	f := reflect.ValueOf(o).Elem().FieldByName("newPrecision")
	if f.IsValid() && f.Kind() == reflect.Int {
		*(*int)(unsafe.Pointer(f.UnsafeAddr())) = 15
		crash := h.Safely(20*time.Second, func() {
			out = append([]byte{}, svg.NewPathData(o).ShortenPathData(append([]byte{}, payload...))...)
		})
		return out, crash == ""
	}
	doc := `<path d="` + strings.ReplaceAll(string(payload), `"`, "&quot;") + `"/>`
	res, err, crash := c05bMinify([]byte(doc), c05bCfg{sub: "none"})
	if crash != "" || err != nil || !bytes.HasPrefix(res, []byte(`<path d=`)) || !bytes.HasSuffix(res, []byte(`/>`)) {
		return nil, false
	}
	v := res[len(`<path d=`) : len(res)-2]
	if len(v) < 2 {
		return nil, false
	}
	q := v[0]
	v = v[1 : len(v)-1]
	if q == '"' {
		return bytes.ReplaceAll(v, []byte("&#34;"), []byte(`"`)), true
	}
	return bytes.ReplaceAll(v, []byte("&#39;"), []byte(`'`)), true
}

// c05bSub answers a `sub` request with the registry the document is minified with.
func c05bSub(m *minify.M, mime, payload []byte, inline bool) (out []byte, present bool, failed bool) {
	var w bytes.Buffer
	var params map[string]string
	if inline {
		params = map[string]string{"inline": "1"}
	}
	err := m.MinifyMimetype(append([]byte{}, mime...), &w, bytes.NewReader(append([]byte{}, payload...)), params)
	if err == minify.ErrNotExist {
		return nil, false, false
	}
	if err != nil {
		return nil, false, true
	}
	return w.Bytes(), true, false
}

// ---------- cases ----------

type c05bCase struct {
	src     []byte
	cfg     c05bCfg
	key     string
	toks    []c05bTok
	out     []byte
	otoks   []c05bTok
	skip    string // reason why the correspondence is not evaluated
	noCount bool   // already counted by the stage
}

func c05bKey(src []byte, cfg c05bCfg) string {
	s := src
	if len(s) > 400 {
		s = s[:400]
	}
	return fmt.Sprintf("%s %s", h.Q(s), cfg)
}

func c05bClip(b []byte) []byte {
	if len(b) > 600 {
		return append(append([]byte{}, b[:600]...), "…"...)
	}
	return b
}

func c05bPrepare(c *Ctx, st *h.Stage, src []byte, cfg c05bCfg) *c05bCase {
	out, err, crash := c05bMinify(src, cfg)
	key := c05bKey(src, cfg)
	if crash != "" {
		c.R.Add(h.Finding{Stage: st.Name, Kind: "crash", What: crash, Input: key, Hex: h.Hex(src), Config: cfg.String()})
		return nil
	}
	if err != nil {
		st.Tag("minify=error(skipped)")
		return nil
	}
	return &c05bCase{src: src, cfg: cfg, key: key, toks: c05bLex(src), out: out, otoks: c05bLex(out)}
}

var c05bDiffs int

// c05bCorr: model vs implementation for a batch of cases (two driver rounds).
func c05bCorr(c *Ctx, st *h.Stage, cases []*c05bCase) error {
	lines := make([]string, 0, len(cases))
	for _, cs := range cases {
		lines = append(lines, "trig.c05b "+c05bGroups(cs.toks))
	}
	rep, err := h.Eval(lines)
	if err != nil {
		return err
	}
	trigs := make([]map[string]bool, len(cases))
	for i := range cases {
		trigs[i] = map[string]bool{}
		if tb, ok, _ := h.DecodeReply(rep[i]); ok {
			for _, t := range h.DecodeListReply(tb) {
				trigs[i][string(t)] = true
			}
		}
	}
	// requests / answers: the payload of a style text request depends (through the bracket count of the output)
	// on what earlier requests returned, so the requests are recomputed with the answers known so far until
	// nothing new is asked
	answers := make([][][][]byte, len(cases))
	seen := make([]map[string]bool, len(cases))
	regs := make([]*minify.M, len(cases))
	for i, cs := range cases {
		seen[i] = map[string]bool{}
		regs[i] = c05bRegistry(cs.cfg.sub)
	}
	pending := make([]int, len(cases))
	for i := range cases {
		pending[i] = i
	}
	for round := 0; round < 6 && len(pending) > 0; round++ {
		lines = lines[:0]
		for _, i := range pending {
			cs := cases[i]
			lines = append(lines, "model.c05b.requests "+h.Bool(cs.cfg.keepComments)+" "+h.Bool(cs.cfg.inline)+" "+c05bGroups(cs.toks)+" "+h.Groups(answers[i]))
		}
		rep, err = h.Eval(lines)
		if err != nil {
			return err
		}
		var next []int
		for j, i := range pending {
			cs := cases[i]
			rb, ok, msg := h.DecodeReply(rep[j])
			if !ok {
				c.R.Add(h.Finding{Stage: st.Name, Kind: "diff", What: "model.c05b.requests: model error " + msg, Input: cs.key, Hex: h.Hex(cs.src), Config: cs.cfg.String()})
				cs.skip = "model error"
				continue
			}
			items := h.DecodeListReply(rb)
			added := false
			for k := 0; k+3 <= len(items); k += 3 {
				kind, mime, payload := string(items[k]), items[k+1], items[k+2]
				akind := map[string]string{"0": "0", "1": "0", "2": "2", "3": "3"}[kind]
				id := akind + "\x00" + string(mime) + "\x00" + string(payload)
				if seen[i][id] {
					continue
				}
				seen[i][id] = true
				added = true
				var out []byte
				present := false
				switch kind {
				case "0", "1", "2":
					var failed bool
					out, present, failed = c05bSub(regs[i], mime, payload, kind == "2")
					if failed {
						cs.skip = "style minifier returns an error"
					}
					if kind == "1" && len(out) > len(payload) {
						cs.skip = "style minifier lengthens a CDATA section (the real code appends into the lexer buffer)"
					}
					st.Tag("request=style-" + map[string]string{"0": "text", "1": "cdata", "2": "attr"}[kind])
				case "3":
					var ok bool
					out, ok = c05bPath(payload)
					present = true
					if !ok {
						cs.skip = "path answer not recoverable through the public API"
					}
					st.Tag("request=path")
				}
				p := []byte("0")
				if present {
					p = []byte("1")
				}
				answers[i] = append(answers[i], [][]byte{[]byte(akind), mime, payload, p, out})
			}
			if added {
				next = append(next, i)
			}
		}
		if round > 0 && len(next) > 0 {
			st.Tag(fmt.Sprintf("requests=round-%d(payload depends on an earlier answer)", round+1))
		}
		pending = next
	}
	lines = lines[:0]
	for i, cs := range cases {
		lines = append(lines, "model.c05b.minify "+h.Bool(cs.cfg.keepComments)+" "+h.Bool(cs.cfg.inline)+" "+c05bGroups(cs.toks)+" "+h.Groups(answers[i]))
	}
	rep, err = h.Eval(lines)
	if err != nil {
		return err
	}
	for i, cs := range cases {
		nontriv := !bytes.Equal(cs.src, cs.out)
		if !cs.noCount {
			st.Count(cs.key, nontriv)
		}
		if cs.skip != "" {
			st.Tag("corr=skipped(" + cs.skip + ")")
			continue
		}
		if trigs[i]["foreignAttr"] && c05bOpen["foreignAttr"] != "" {
			c.R.ExcludedKnown++
			st.Tag("corr=excluded-known(" + c05bOpen["foreignAttr"] + ")")
			continue
		}
		got, ok, msg := h.DecodeReply(rep[i])
		if !ok {
			c.R.Add(h.Finding{Stage: st.Name, Kind: "diff", What: "model.c05b.minify: model error " + msg, Input: cs.key, Hex: h.Hex(cs.src), Config: cs.cfg.String()})
			continue
		}
		if !bytes.Equal(got, cs.out) {
			c05bDiffs++
			if c05bDiffs <= 8 {
				c.R.Add(h.Finding{Stage: st.Name, Kind: "diff", What: "model.c05b.minify", Input: cs.key, Hex: h.Hex(cs.src), Config: cs.cfg.String(), Impl: h.Q(c05bClip(cs.out)), Model: h.Q(c05bClip(got))})
			}
			continue
		}
		st.Tag("corr=equal")
	}
	// the Lean specification on the token lists of input and output (real lexer on both)
	lines = lines[:0]
	for _, cs := range cases {
		lines = append(lines, "spec.c05b.holds "+h.Bool(cs.cfg.inline)+" "+c05bGroups(cs.toks)+" "+c05bGroups(cs.otoks))
	}
	rep, err = h.Eval(lines)
	if err != nil {
		return err
	}
	for i, cs := range cases {
		var lean []string
		if b, ok, msg := h.DecodeReply(rep[i]); ok {
			for _, it := range h.DecodeListReply(b) {
				lean = append(lean, string(it))
			}
		} else {
			c.R.Add(h.Finding{Stage: st.Name, Kind: "diff", What: "spec.c05b.holds: driver error " + msg, Input: cs.key})
		}
		c05bJudge(c, st, cs, trigs[i], lean)
	}
	return nil
}

// trigger name → id of the open known finding
var c05bOpen = map[string]string{}

var c05bTextNumRefRe = regexp.MustCompile(`&#0*(60|38);|&#x0*(3[cC]|26);`)

// clause → triggers of known findings that excuse it (ids from known_findings.json)
var c05bExcuse = map[string][]string{
	"attr-value": {"foreignAttr"}, "wf": {"textNumRef", "foreignAttr", "emptyFO", "styleAmp", "cdEnd"}, "text": {"textNumRef", "foreignAttr"}, "ns": {"svgPrefix", "foPrefix"}, "pi": {"pi"},
	"doctype": {"doctypeSpace"}, "attr-text": {"textAttrDim"}, "lean-values": {"textAttrDim"}, "attr-lost-type": {"styleType"}, "tree": {"foreignAttr"}, "attr-lost": {"foreignAttr"}, "attr-extra": {"foreignAttr"},
}

// c05bJudge: the property on the real output (independent of the model); trigs = token-level triggers from Lean
func c05bJudge(c *Ctx, st *h.Stage, cs *c05bCase, leanTrigs map[string]bool, lean []string) {
	cl, desc, trig, inWF := c05bJudgeTree(cs.src, cs.out, cs.cfg)
	if !inWF {
		st.Tag("oracle=input-not-wf(skipped)")
		return
	}
	for t := range leanTrigs {
		trig[t] = true
	}
	for _, t := range cs.toks {
		if t.tt == pxml.TextToken && c05bTextNumRefRe.Match(t.data) {
			trig["textNumRef"] = true
		}
		if (t.tt == pxml.TextToken && bytes.Contains(t.data, []byte("]]"))) || (t.tt == pxml.CDATAToken && bytes.HasPrefix(t.text, []byte(">"))) {
			trig["cdEnd"] = true
		}
	}
	trig["textAttrDim"] = cl == "attr-text"
	for t, on := range trig {
		if on {
			st.Tag("trigger=" + t)
		}
	}
	// Lean clause (only where the guards of svg_structure_partial hold and the Go oracle has nothing to report)
	if cl == "" {
		guarded, leanCl := false, ""
		for _, x := range lean {
			if strings.HasPrefix(x, "guard:") {
				guarded = true
				st.Tag("lean-" + x)
			} else {
				leanCl = x
			}
		}
		if !guarded {
			if leanCl == "" {
				st.Tag("lean-spec=holds")
			} else {
				cl, desc = "lean-"+leanCl, "spec.c05b.holds (Verif.Spec.SvgDocSpec.structEquiv) on the tokens of input and output"
			}
		} else {
			st.Tag("lean-spec=not-applicable(guard)")
		}
	}
	if cl == "" {
		if trig["defs1"] && c05bOpen["defs1"] != "" {
			c.R.ExcludedKnown++
			st.Tag("oracle=holds-modulo-known(" + c05bOpen["defs1"] + ")")
			return
		}
		st.Tag("oracle=holds")
		return
	}
	for _, t := range c05bExcuse[cl] {
		if trig[t] && c05bOpen[t] != "" {
			c.R.ExcludedKnown++
			st.Tag("oracle=fails-under-known-trigger(" + c05bOpen[t] + ")")
			return
		}
	}
	c.R.Add(h.Finding{Stage: st.Name, Kind: "fail", What: "svg structure: clause " + cl + " fails on the real output (" + desc + ")", Input: cs.key, Hex: h.Hex(cs.src), Config: cs.cfg.String(), Impl: h.Q(c05bClip(cs.out))})
}

var c05bCfgs = []c05bCfg{
	{false, false, "css"}, {true, false, "css"}, {false, true, "css"}, {true, true, "none"}, {false, false, "none"}, {false, false, "stub"}, {true, true, "stub"},
}

func init() {
	register("C05B", func(c *Ctx) error {
		for _, k := range h.Known("C05B") {
			if k.Status == "open" && k.Trigger != "" {
				c05bOpen[k.Trigger] = k.ID
			}
		}
		for _, k := range h.Known("C05") { // findings of the same property recorded by the path-data half
			if k.Status == "open" && k.ID == "K-C05-7" {
				c05bOpen["defs1"] = k.ID
			}
		}
		// ---- replay of a recorded failing input (./check C05B --replay file) ----
		if c.Replay != "" {
			if b, err := os.ReadFile(c.Replay); err == nil {
				var obj struct {
					Finding struct {
						Hex string `json:"input_hex"`
					} `json:"finding"`
				}
				if json.Unmarshal(b, &obj) == nil && obj.Finding.Hex != "" {
					src, _ := hex.DecodeString(obj.Finding.Hex)
					st := c.R.StartStage("replay", "the recorded failing input, all configurations")
					var cases []*c05bCase
					for _, cfg := range c05bCfgs {
						if cs := c05bPrepare(c, st, src, cfg); cs != nil {
							cases = append(cases, cs)
						}
					}
					err := c05bCorr(c, st, cases)
					st.End()
					return err
				}
			}
		}

		// ---- known findings: replay the exact inputs on the real code ----
		for _, k := range h.Known("C05B") {
			if k.Status != "open" {
				continue
			}
			doc := k.ReplayStr("doc")
			out, err, crash := c05bMinify([]byte(doc), c05bCfg{sub: "css"})
			still := crash != "" || err != nil
			if !still {
				cl, _, _, inWF := c05bJudgeTree([]byte(doc), out, c05bCfg{sub: "css"})
				still = inWF && cl != ""
				if exp := k.ReplayStr("expected"); exp != "" {
					still = string(out) != exp
				}
			}
			c.R.AddKnown(k.ID, still, k.What, string(out))
		}

		st := c.R.StartStage("fixed", "hand-written SVG documents (svg_test.go shapes, every branch of the loop) x configurations; model on the real lexer's tokens vs svg.Minify bytes; non-trivial = output differs from input")
		var cases []*c05bCase
		docs := append([]string{}, c05bFixed...)
		for _, k := range h.Known("C05B") { // inputs of findings fixed in /repo: regression corpus, must pass
			if k.Status == "fixed" {
				docs = append(docs, k.ReplayStr("doc"))
			}
		}
		for _, f := range docs {
			for _, cfg := range c05bCfgs {
				if cs := c05bPrepare(c, st, []byte(f), cfg); cs != nil {
					cases = append(cases, cs)
				}
			}
		}
		if err := c05bCorr(c, st, cases); err != nil {
			return err
		}
		st.End()

		// ---- dimensions: every number notation x every unit through the real code ----
		st = c.R.StartStage("dimensions", "every number spelling x every unit as `<g width=V/>` through svg.Minify: value and unit judged by math/big (independent of the model); hypothesis hagree of dimension_value_ok (spec.c05b.dim) and contract NumOk (spec.c05b.numok) on the real minify.Number; non-trivial = value rewritten")
		{
			var ins, outs []string
			lines := []string{}
			for _, nmb := range c05bNumbers {
				for _, u := range c05bUnits {
					v := nmb + u
					res, err, crash := c05bMinify([]byte(`<g width="`+v+`"/>`), c05bCfg{sub: "none"})
					if crash != "" || err != nil || !bytes.HasPrefix(res, []byte(`<g width="`)) || !bytes.HasSuffix(res, []byte(`"/>`)) {
						continue
					}
					ov := string(res[len(`<g width="`) : len(res)-3])
					ins, outs = append(ins, v), append(outs, ov)
					lines = append(lines, "spec.c05b.dim "+h.HexS(v))
					lines = append(lines, "spec.c05b.numok "+h.HexS(nmb)+" "+h.Hex(minify.Number([]byte(nmb), 0)))
				}
			}
			rep, err := h.Eval(lines)
			if err != nil {
				return err
			}
			for i := range ins {
				st.Count(ins[i], ins[i] != outs[i])
				agree, _, _ := h.DecodeReply(rep[2*i])
				nok, _, _ := h.DecodeReply(rep[2*i+1])
				_, _, isDim := c05bDimOf(ins[i])
				st.Tag("spec.c05b.dim=" + map[string]string{"": "not-a-dimension", "1": "agrees", "0": "parse.Dimension-disagrees(trailing dot)"}[string(agree)])
				if ins[i] != outs[i] && !c05bSameDim(ins[i], outs[i]) {
					c.R.Add(h.Finding{Stage: st.Name, Kind: "fail", What: "svg dimension: value or unit changed", Input: h.Q([]byte(ins[i])), Impl: h.Q([]byte(outs[i]))})
				}
				if string(nok) == "0" {
					c.R.Add(h.Finding{Stage: st.Name, Kind: "fail", What: "minify.Number breaks the contract NumOk (value / number shape)", Input: h.Q([]byte(ins[i])), Impl: h.Q([]byte(outs[i]))})
				}
				if string(agree) == "0" && isDim && ins[i] != outs[i] && !strings.Contains(ins[i], ".e") && !strings.HasSuffix(strings.TrimRight(ins[i], "%abcdefghijklmnopqrstuvwxyzABCDEFGHIJKLMNOPQRSTUVWXYZ"), ".") {
					c.R.Add(h.Finding{Stage: st.Name, Kind: "diff", What: "spec.c05b.dim: parse.Dimension (model) and the SVG number grammar disagree on a rewritten value", Input: h.Q([]byte(ins[i])), Impl: h.Q([]byte(outs[i]))})
				}
			}
		}
		st.End()

		// ---- generated documents ----
		st = c.R.StartStage("generated", "seeded SVG documents (all element kinds incl. style/defs/metadata/foreignObject, svg:-prefixed and foreign elements, prefixed attributes of every kind, root defaults, dimensions in every notation/unit, colour names/hex, viewBox forms, style text/CDATA/attribute, comments, PIs, DOCTYPE with internal subset, empty and whitespace-only elements; 1 in 5 documents also with not well-formed shapes) x one configuration each (stand-alone/inline x KeepComments x css.Minify/no style minifier/stub); model on the real lexer's tokens vs svg.Minify bytes; non-trivial = output differs from input")
		n := c.N(6000, 120000)
		if c.Search {
			n *= 3
		}
		cases = cases[:0]
		for i := 0; i < n; i++ {
			r := c.Rng.Fork()
			doc := []byte(c05bDoc(r, i%5 == 4))
			cfg := c05bCfgs[r.Intn(len(c05bCfgs))]
			if cs := c05bPrepare(c, st, doc, cfg); cs != nil {
				cases = append(cases, cs)
			}
			if len(cases) >= 10000 {
				if err := c05bCorr(c, st, cases); err != nil {
					return err
				}
				cases = cases[:0]
			}
		}
		if err := c05bCorr(c, st, cases); err != nil {
			return err
		}
		st.End()

		// ---- histories: several calls on ONE shared *svg.Minifier ----
		st = c.R.StartStage("histories", "sequences of 2-4 calls on one shared *svg.Minifier registered in one M together with html.Minify and css.Minify (the cmd/minify setup): direct Minify with params nil / inline=1, m.Minify(image/svg+xml), m.Minify(text/html) of a page that embeds the svg; KeepComments off/on, Precision 0 (and 3 without model); every svg output compared with the same call on a FRESH minifier, with the model and judged by the oracles; the option struct compared before/after every call; non-trivial = an inline call precedes a stand-alone call")
		if err := c05bHistories(c, st); err != nil {
			return err
		}
		st.End()

		// ---- corpus and benchmark files ----
		st = c.R.StartStage("corpus", "/repo/tests/svg/corpus/*, /repo/_benchmarks/*.svg x {stand-alone, inline} with css.Minify; same comparison; non-trivial = output differs from input")
		var files []string
		for _, pat := range []string{"tests/svg/corpus/*", "_benchmarks/*.svg"} {
			m, _ := filepath.Glob(filepath.Join(c.Repo, pat))
			sort.Strings(m)
			files = append(files, m...)
		}
		cases = cases[:0]
		for _, f := range files {
			b, err := os.ReadFile(f)
			if err != nil {
				continue
			}
			if len(b) > 200000 && !c.Thorough() && !c.Search {
				c.R.Note("corpus file %s (%d bytes) only in the thorough tier", strings.TrimPrefix(f, c.Repo+"/"), len(b))
				continue
			}
			for _, cfg := range []c05bCfg{{false, false, "css"}, {true, true, "css"}} {
				if cs := c05bPrepare(c, st, b, cfg); cs != nil {
					cs.key = fmt.Sprintf("file %s %s", strings.TrimPrefix(f, c.Repo+"/"), cfg)
					cases = append(cases, cs)
				}
			}
		}
		if err := c05bCorr(c, st, cases); err != nil {
			return err
		}
		st.End()
		if c05bDiffs > 8 {
			c.R.Note("%d model/implementation disagreements in total (first 8 recorded)", c05bDiffs)
		}
		return nil
	})
}

var c05bFixed = []string{
	`<!-- comment -->`, `<!DOCTYPE svg SYSTEM "foo.dtd">`, `<!DOCTYPE svg PUBLIC "-//W3C//DTD SVG 1.1//EN" "foo.dtd" [ <!ENTITY x "bar"> ]>`,
	`<?xml version="1.0" ?>`, `<style> <![CDATA[ x ]]> </style>`, `<style> <![CDATA[ <<<< ]]> </style>`, `<style> <![CDATA[ <<<<< ]]> </style>`,
	`<style/><![CDATA[ <<<<< ]]>`, `<svg version="1.0"></svg>`, `<svg version="1.1" x="0" y="0px" width="100%" height="100%"><path/></svg>`,
	`<svg width="auto" height="auto"><path/></svg>`, `<path x="a"> </path>`, `<path x=""> </path>`, `<path x=" a "/>`, "<path x=\" a \n b \"/>",
	`<path x="5.0px" y="0%"/>`, `<svg viewBox="5.0px 5px 240IN px"><path/></svg>`, `<svg viewBox="5.0!5px"><path/></svg>`,
	`<path d="M 100 100 L 300 100 L 200 100 z"/>`, `<path d="M0.5 0.6 M -100 0.5z"/>`, `<?xml version="1.0" encoding="utf-8"?>`,
	`<svg viewbox="0 0 16 16"><path/></svg>`, `<g></g>`, `<g><path/></g>`, `<g id="a"><g><path/></g></g>`, `<path fill="#ffffff"/>`, `<path fill="#fff"/>`,
	`<path fill="white"/>`, `<path fill="#ff0000"/>`, `<rect x="5" y="10" width="30" height="0%"/>`,
	`<svg contentStyleType="text/json ; charset=iso-8859-1"><style>{a : true}</style></svg>`, `<metadata><dc:title /></metadata>`, `<metadata><dc:title />`,
	`<foreignObject><foreignObject></foreignObject></foreignObject>`, `<foreignObject>`, `<foreignObject/>  text`, `<foreignObject><foreignObject/></foreignObject>  text`,
	`<xyz:rect width="100%" height="100%" fill="green"/>`, `<svg:rect width="100%" height="100%" fill="green"/>`, `<!DOCTYPE bla><?xml?><!-- comment --><metadata/>`,
	`<polygon points="-0.1,"/>`, `<path stroke="url(#UPPERCASE)"/>`, `<rect height="10"/><path/>`, `<rect height="10"><path/></rect>`,
	`<foreignObject><div></div></foreignObject>`, `<svg x-foo=""/>`, `<0 d=09e9.6e-9e0`, `<line`,
	`<style> a > b {} </style>`, `<style> <![CDATA[ @media x < y {} ]]> </style>`, `<style> <![CDATA[ * { content: '<<<<<'; } ]]> </style>`,
	`<path style="fill: black; stroke: #ff0000;"/>`,
	// probes of this builder
	`<svg><foreignObject><p title="a &amp; b">x  y</p><!-- c --></foreignObject></svg>`,
	`<svg:svg xmlns:svg="http://www.w3.org/2000/svg"><svg:rect/></svg:svg>`, `<?xml-stylesheet href="a.css" type="text/css"?><svg/>`,
	`<!DOCTYPE svg [<!ENTITY a "b">] ><svg a="&a;"/>`, `<svg><glyph unicode="1.0"/><glyph unicode="1AB"/><feOffset result="01"/></svg>`,
	`<svg><defs/><defs id="a"/><defs id="a" x="1"/><defs></defs><defs id="a"></defs></svg>`, `<svg><text>a <tspan>b</tspan> c</text></svg>`,
	`<svg><text xml:space="preserve">a   b</text></svg>`, `<svg contentStyleType="text/x"><style type="text/css">a{}</style></svg>`,
	`<svg><style></style>a { color : red }</svg>`, `<svg x="0" y="0"><svg x="0px" y="0e5" version="1.1" baseProfile="none"/></svg>`,
	`<svg a b = c d='x"y' e="x'y&quot;"/>`,
	`<svg xl:href="#a" xmlns:xl="http://www.w3.org/1999/xlink" xlink:href="#b" xml:space="default" xmlns:xlink="u" xmlns:x="y" x:y="z" :a="1" a:="2"/>`,
	`<svg><svg:metadata>x</svg:metadata><svg:style>a { }</svg:style><svg:foreignObject> <p>a  b</p> </svg:foreignObject></svg>`,
	`<svg width="10PX" height="1E3Em" x="+5" y="-0.0%" a=".5e-2mm" b="5." c="1e400" d="0x"/>`,
	`<svg><text>a &lt; b &amp; c &#60; d &#38; e &gt; f</text></svg>`, `<svg><style>a &gt; b { color : red } /* &lt; */</style></svg>`,
	`<svg><style><![CDATA[a > b { color : red } c::after{content:"<&"}]]></style></svg>`,
	`<svg><text><![CDATA[a  <  b]]></text><text><![CDATA[ <<<<< a  b ]]></text></svg>`,
	`<svg><path style="fill : red ; font-family : &quot;A&quot;" d=" M 10 10 L 20 20 " viewBox="0 0 10 10"/></svg>`,
	`<svg contentStyleType=" Text/CSS ; a=b "><style>a { }</style><path style="a : b"/></svg>`,
	`<svg viewBox="0,0,10.0,10px" a="1,2"/><svg viewBox=" 0  0 10 10 "/><svg viewBox="0 0 10 10 5"/><svg viewBox="0 0 10"/><svg viewBox=""/><svg viewBox="1e1 +5 -.5 0.50"/>`,
	`<svg viewBox="0, 0, 10, 10"/><svg viewBox="0 , 0"/><svg viewBox="0 0 0em 0%"/><svg viewBox="&#48; 0 1 1"/>`,
	`<svg fill="#FF0000" stroke="#ffAA00" color="Red" stop-color="#abcdef" flood-color="url(#a)" lighting-color="URL(#B)" />`,
	`<svg fill="rgb(255,0,0)" stroke="none" color="currentColor" stop-color="" flood-color="#f00" lighting-color="blue" />`,
	`<svg fill="#aabbcc" stroke="#AABBCC" color="#ffffff" stop-color="#c0c0c0" flood-color="#808080" lighting-color="lightgoldenrodyellow" />`,
	`<svg xmlns="http://www.w3.org/2000/svg" preserveAspectRatio=" xMidYMid  meet " contentScriptType="application/ecmascript" contentStyleType="text/css" baseProfile="none"/>`,
	`<svg><g fill="url(#a)" stroke="url(" color="urL(x" stop-color="u"/></svg>`,
	`<svg><style type="text/css"> a { } </style><style type="text/x">a { }</style><g type="text/css"/></svg>`,
	`<svg><foreignObject width="10.0"><svg x="0"><foreignObject><p/></foreignObject></svg></foreignObject><g x="1.0"/></svg>`,
	`<svg><foreignObject></foreignObject><g x="1.0"> <metadata/> </g><foreignObject> </foreignObject></svg>`,
	`<svg><foreignObject/><g x="1.0"/></svg>`, `<svg><a:b><c></a:b></c><d x="1.0"/></svg>`,
	`<svg><metadata><a><metadata></metadata></a><b/></metadata><c/></svg>`, `<svg><?pi a="b"?><g/><?x`,
	`<svg><defs/>`, `<svg><defs`, `<svg><defs a`, `<svg><defs a="1"/`, `<svg><g></g ></svg  >`, `<svg:g></svg:g ><svg:></svg:>`,
	`<svg a="&#9;x&#10;" b="&#32; y &#32;" c='&apos;"' d="&lt;&amp;&gt;" e="a&#x20;&#x20;b"/>`,
	`<svg><text> a  b </text><text>&#32;</text><text> <![CDATA[ ]]> </text></svg>`,
	`<svg><style>a{}</style><!--c--><style><!--c-->a { }</style></svg>`,
	`<svg id="1.50" class="1.0" href="1.0" font-family="1.0" xlink:href="1.0" version="1.10" font-size="1.0"/>`,
	// escapeCDEnd / bracketWriter (/repo 2fde2e2)
	`<svg>]<!--c-->]<![CDATA[>]]>&gt;</svg>`, `<svg>]]<metadata><a/></metadata>&gt; ]]&#62; ]]></svg>`, `<svg><style>a]]</style>&gt;<style>]]&gt; a{}</style>&gt;</svg>`,
	`<svg><style><![CDATA[a]]]]></style><![CDATA[>]]><text>]</text><text>]</text>&gt;</svg>`, `<svg a="]]"/>&gt;<svg>]]<g/>&gt;</svg>`, `<svg>]]<?pi a]]?>&gt;]]<!--c-->&gt;</svg>`,
	`<svg data-x="1.0" aria-label="10px" lang="1.0" data="1.0" aria="1.0"/>`,
	// isCharData / escapeCDEnd after the sub-minifier (/repo d582c28), > inside a processing instruction (59fe76b)
	`<svg><style>a{b:c&amp;}</style></svg>`, `<svg><style>a[b]] > c{d:e}</style></svg>`, `<svg><style><![CDATA[a[b]] > c{d:e}]]></style></svg>`,
	`<svg><g style="a:&lt;"/></svg>`, `<?p a>b?><svg/>`, `<?p a/>b?><svg/>`, `<svg><style>a{b:"&#60;"}</style><g style="a:b&#38;;c:d"/></svg>`,
	`<svg><style>]] &gt; a{}</style><style>a { } ]]</style>&gt;</svg>`,
}

// ---------- histories ----------

type c05bCall struct {
	kind string // "direct", "direct-inline", "registry", "html"
	doc  []byte
}

func c05bSharedSetup(keepComments bool, precision int) (*minify.M, *svg.Minifier) {
	m := minify.New()
	sm := &svg.Minifier{KeepComments: keepComments, Precision: precision}
	m.AddFunc("text/css", css.Minify)
	m.AddFunc("text/html", html.Minify)
	m.Add("image/svg+xml", sm)
	return m, sm
}

func c05bDoCall(m *minify.M, sm *svg.Minifier, call c05bCall) (out []byte, err error, crash string) {
	crash = h.Safely(30*time.Second, func() {
		var w bytes.Buffer
		r := bytes.NewReader(append([]byte{}, call.doc...))
		switch call.kind {
		case "direct":
			err = sm.Minify(m, &w, r, nil)
		case "direct-inline":
			err = sm.Minify(m, &w, r, map[string]string{"inline": "1"})
		case "registry":
			err = m.Minify("image/svg+xml", &w, r)
		case "html":
			err = m.Minify("text/html", &w, r)
		}
		out = w.Bytes()
	})
	return
}

func c05bHistories(c *Ctx, st *h.Stage) error {
	n := c.N(400, 6000)
	if c.Search {
		n *= 3
	}
	fixedDocs := []string{
		`<svg xmlns="http://www.w3.org/2000/svg" viewBox="0 0 10 10"><path d="M0 0L10 10"/></svg>`,
		`<svg xmlns="http://www.w3.org/2000/svg" width="10.0px"><!-- c --><g fill="#ff0000"/></svg>`,
	}
	var cases []*c05bCase
	for i := 0; i < n; i++ {
		r := c.Rng.Fork()
		keep := r.Chance(30)
		prec := 0
		if r.Chance(15) {
			prec = 3
		}
		ncalls := 2 + r.Intn(3)
		var calls []c05bCall
		for k := 0; k < ncalls; k++ {
			var doc string
			if i < 8 || r.Chance(20) {
				doc = fixedDocs[r.Intn(len(fixedDocs))]
			} else {
				doc = c05bDoc(r, false)
			}
			kind := r.Pick([]string{"direct", "direct-inline", "registry", "html", "direct-inline", "registry"})
			if i < 8 { // the shapes that matter first: inline (directly / through an HTML page), then stand-alone
				kind = [][]string{{"direct-inline", "direct"}, {"html", "registry"}, {"direct-inline", "registry"}, {"html", "direct"}}[i%4][k%2]
			}
			if kind == "html" {
				doc = "<!doctype html><html><body><p>x</p>" + doc + "</body></html>"
			}
			calls = append(calls, c05bCall{kind, []byte(doc)})
		}
		m, sm := c05bSharedSetup(keep, prec)
		hist := ""
		inlineBefore := false
		for k, call := range calls {
			before := *sm
			out, err, crash := c05bDoCall(m, sm, call)
			after := *sm
			fm, fsm := c05bSharedSetup(keep, prec)
			fout, ferr, fcrash := c05bDoCall(fm, fsm, call)
			hist += fmt.Sprintf("[%d:%s]", k, call.kind)
			key := fmt.Sprintf("history %s keepComments=%v precision=%d call %d %s %s", hist, keep, prec, k, call.kind, h.Q(c05bClip(call.doc)))
			standalone := call.kind == "direct" || call.kind == "registry"
			st.Count(key, inlineBefore && standalone)
			st.Tag("call=" + call.kind)
			if crash != "" || fcrash != "" {
				c.R.Add(h.Finding{Stage: st.Name, Kind: "crash", What: crash + fcrash, Input: key, Hex: h.Hex(call.doc)})
				break
			}
			if !reflect.DeepEqual(before, after) {
				c.R.Add(h.Finding{Stage: st.Name, Kind: "diff", What: fmt.Sprintf("svg.Minifier option struct changed by a call: %+v -> %+v", before, after), Input: key, Hex: h.Hex(call.doc)})
			}
			if (err == nil) != (ferr == nil) || !bytes.Equal(out, fout) {
				// same call, same options, other output: judged by the oracle below for svg calls; html pages directly
				st.Tag("shared!=fresh")
				if !standalone && call.kind != "direct-inline" {
					c.R.Add(h.Finding{Stage: st.Name, Kind: "fail", What: "the output of a call depends on the calls made before on the same svg.Minifier (HTML page with embedded svg)", Input: key, Hex: h.Hex(call.doc), Impl: h.Q(c05bClip(out)), Model: h.Q(c05bClip(fout))})
				} else if prec != 0 {
					c.R.Add(h.Finding{Stage: st.Name, Kind: "fail", What: "the output of a call depends on the calls made before on the same svg.Minifier", Input: key, Hex: h.Hex(call.doc), Impl: h.Q(c05bClip(out)), Model: h.Q(c05bClip(fout))})
				}
			} else {
				st.Tag("shared=fresh")
			}
			if call.kind != "html" && prec == 0 && err == nil {
				cfg := c05bCfg{inline: call.kind == "direct-inline", keepComments: keep, sub: "css"}
				cases = append(cases, &c05bCase{src: call.doc, cfg: cfg, key: key, toks: c05bLex(call.doc), out: out, otoks: c05bLex(out), noCount: true})
			}
			if call.kind == "direct-inline" || call.kind == "html" {
				inlineBefore = true
			}
		}
	}
	return c05bCorr(c, st, cases)
}

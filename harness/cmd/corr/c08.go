package main

// C08 — Number/Decimal shortening keeps the numeric value.
//
// The real minify.Number / minify.Decimal are called on a fresh copy of the input placed between two
// 8-byte canaries inside a larger array (writes outside the slice and results that alias outside
// [0,len) are detected), for precisions -1,0,1..20, and compared
//   (a) with the Lean models model.number / model.decimal (correspondence),
//   (b) with the property itself: spec.holds.c08 (grammar, value, length) evaluated by the Lean
//       specification on the implementation's output, cross-checked in Go with math/big.
// Domains: fixed regression corpus; exhaustive enumeration of the grammar over the digits {0,1,4,5,9};
// all strings (not only grammatical) over {0,1,5,9,.,e,-,+} up to length 5; seeded random long lexemes.

import (
	"bytes"
	"fmt"
	"math/big"
	"runtime"
	"strconv"
	"strings"
	"sync"
	"time"

	"github.com/tdewolff/minify/v2"

	"verifharness/h"
)

const c08Canary = "\xA5\x5A\xC3\x3C\x96\x69\xF0\x0F"

// c08Call runs f on a guarded copy of in. problem != "" reports a panic, a canary hit or a result outside the slice.
func c08Call(f func([]byte, int) []byte, in []byte, prec int) (out []byte, problem string) {
	n := len(in)
	buf := make([]byte, n+16)
	copy(buf, c08Canary)
	copy(buf[8:], in)
	copy(buf[8+n:], c08Canary)
	num := buf[8 : 8+n] // cap reaches over the trailing canary: an over-long result slice is observable
	var res []byte
	crash := ""
	func() { // per-case recover; the timeout is applied per batch by the caller (h.Safely around the batch)
		defer func() {
			if p := recover(); p != nil {
				crash = fmt.Sprintf("panic: %v", p)
			}
		}()
		res = f(num, prec)
	}()
	if crash != "" {
		return nil, crash
	}
	if string(buf[:8]) != c08Canary || string(buf[8+n:]) != c08Canary {
		return append([]byte{}, res...), "wrote outside the slice (canary overwritten)"
	}
	if len(res) > 0 || cap(res) > 0 {
		off := cap(num) - cap(res)
		if off < 0 || off+len(res) > n {
			return append([]byte{}, res...), fmt.Sprintf("result aliases bytes outside the slice (offset %d, len %d, slice len %d)", off, len(res), n)
		}
	}
	return append([]byte{}, res...), ""
}

// ---------- independent Go oracle (math/big): grammar, normalised decimal value, half-unit bound ----------

type c08Dec struct {
	neg bool
	m   *big.Int // 10 does not divide m unless m == 0
	e   *big.Int
}

func c08IsDigit(c byte) bool { return '0' <= c && c <= '9' }

// c08Parse implements [+-]?(d+.?d*|.d+)([eE][+-]?d+)?; hasExp reports whether an exponent part is present.
func c08Parse(s []byte) (d c08Dec, hasExp bool, ok bool) {
	i := 0
	if i < len(s) && (s[i] == '+' || s[i] == '-') {
		d.neg = s[i] == '-'
		i++
	}
	j := i
	for j < len(s) && c08IsDigit(s[j]) {
		j++
	}
	ip := s[i:j]
	var fp []byte
	if j < len(s) && s[j] == '.' {
		k := j + 1
		for k < len(s) && c08IsDigit(s[k]) {
			k++
		}
		fp = s[j+1 : k]
		j = k
	}
	if len(ip)+len(fp) == 0 {
		return d, false, false
	}
	exp := new(big.Int)
	if j < len(s) {
		if s[j] != 'e' && s[j] != 'E' {
			return d, false, false
		}
		hasExp = true
		j++
		eneg := false
		if j < len(s) && (s[j] == '+' || s[j] == '-') {
			eneg = s[j] == '-'
			j++
		}
		if j == len(s) {
			return d, false, false
		}
		for k := j; k < len(s); k++ {
			if !c08IsDigit(s[k]) {
				return d, false, false
			}
		}
		exp.SetString(string(s[j:]), 10)
		if eneg {
			exp.Neg(exp)
		}
	}
	m := new(big.Int)
	m.SetString(string(ip)+string(fp), 10)
	exp.Sub(exp, big.NewInt(int64(len(fp))))
	if m.Sign() == 0 {
		return c08Dec{false, m, new(big.Int)}, hasExp, true
	}
	ten := big.NewInt(10)
	q, r := new(big.Int), new(big.Int)
	for {
		q.QuoRem(m, ten, r)
		if r.Sign() != 0 {
			break
		}
		m.Set(q)
		exp.Add(exp, big.NewInt(1))
	}
	d.m, d.e = m, exp
	return d, hasExp, true
}

func c08Pow10(k int64) *big.Int { return new(big.Int).Exp(big.NewInt(10), big.NewInt(k), nil) }

// c08Within: |b-a| <= 1/2 * 10^u with u = e_a + digits(m_a) - p; for Decimal (which only removes digits after
// the dot) the unit is never coarser than the units place: u = min(u, 0)
func c08Within(dec bool, a, b c08Dec, p int) bool {
	if a.m.Sign() == 0 {
		return b.m.Sign() == 0
	}
	if b.m.Sign() == 0 {
		return false
	}
	u := new(big.Int).Add(a.e, big.NewInt(int64(len(a.m.String())-p)))
	if dec && u.Sign() > 0 {
		u.SetInt64(0)
	}
	lo := new(big.Int).Set(a.e)
	hi := new(big.Int).Set(a.e)
	for _, x := range []*big.Int{b.e, u} {
		if x.Cmp(lo) < 0 {
			lo.Set(x)
		}
		if x.Cmp(hi) > 0 {
			hi.Set(x)
		}
	}
	if new(big.Int).Sub(hi, lo).Cmp(big.NewInt(100000)) > 0 {
		return false
	}
	sc := func(d c08Dec) *big.Int {
		x := new(big.Int).Mul(d.m, c08Pow10(new(big.Int).Sub(d.e, lo).Int64()))
		if d.neg {
			x.Neg(x)
		}
		return x
	}
	diff := new(big.Int).Sub(sc(a), sc(b))
	diff.Abs(diff)
	diff.Mul(diff, big.NewInt(2))
	return diff.Cmp(c08Pow10(new(big.Int).Sub(u, lo).Int64())) <= 0
}

// c08Oracle returns the fail mask of the property computed in Go (same bit meaning as Spec.Num.failMask).
func c08Oracle(decimalMode bool, in []byte, prec int, out []byte) int {
	a, aexp, aok := c08Parse(in)
	if !aok || (decimalMode && aexp) {
		return 1
	}
	mask := 0
	b, bexp, bok := c08Parse(out)
	if !bok || (decimalMode && bexp) {
		mask |= 2
	}
	if !bok {
		mask |= 4
	} else if prec <= 0 {
		if a.neg != b.neg || a.m.Cmp(b.m) != 0 || a.e.Cmp(b.e) != 0 {
			mask |= 4
		}
	} else if !c08Within(decimalMode, a, b, prec) {
		mask |= 4
	}
	if len(out) > len(in) {
		mask |= 8
	}
	return mask
}

// c08RatCheck: for small exponents additionally compare as big.Rat (exact case only)
func c08RatEqual(in, out []byte) (bool, bool) {
	if len(in) > 60 || len(out) > 60 {
		return false, false
	}
	for _, s := range [][]byte{in, out} {
		if i := bytes.IndexAny(s, "eE"); i >= 0 && len(s)-i > 5 {
			return false, false
		}
	}
	norm := func(s []byte) string {
		t := string(s)
		if strings.HasPrefix(t, "+") {
			t = t[1:]
		}
		return t
	}
	x, ok1 := new(big.Rat).SetString(norm(in))
	y, ok2 := new(big.Rat).SetString(norm(out))
	if !ok1 || !ok2 {
		return false, false
	}
	return x.Cmp(y) == 0, true
}

func c08MaskText(m int) string {
	var p []string
	if m&2 != 0 {
		p = append(p, "output not in the grammar")
	}
	if m&4 != 0 {
		p = append(p, "value not preserved")
	}
	if m&8 != 0 {
		p = append(p, "output longer than input")
	}
	return strings.Join(p, " + ")
}

// ---------- case collection ----------

type c08Case struct {
	in      []byte
	prec    int
	dec     bool // Decimal instead of Number
	gram    bool // input is in the grammar of the function under test
	out     []byte
	problem string
}

type c08Batch struct {
	c                           *Ctx
	st                          *h.Stage
	cases                       []c08Case
	limit                       int
	err                         error
	known                       []h.KnownEntry
	nontrv                      func(cs *c08Case) bool
	ndiff                       map[string]int
	distinct                    bool // cases are pairwise distinct by construction (enumeration)
	busy                        chan struct{}
	tImpl, tLines, tEval, tPost time.Duration
}

func (b *c08Batch) add(in []byte, prec int, dec bool, gram bool) {
	if b.err != nil {
		return
	}
	b.cases = append(b.cases, c08Case{in: in, prec: prec, dec: dec, gram: gram})
	if len(b.cases) >= b.limit {
		b.flush()
	}
}

func c08Name(dec bool) string {
	if dec {
		return "Decimal"
	}
	return "Number"
}

// flush hands the collected cases to a background worker (at most one outstanding batch), so that
// generating the next batch overlaps with evaluating this one; wait() joins the worker.
func (b *c08Batch) flush() {
	b.wait()
	if len(b.cases) == 0 || b.err != nil {
		return
	}
	work := b.cases
	b.cases = make([]c08Case, 0, len(work))
	b.busy = make(chan struct{})
	go func() {
		defer close(b.busy)
		b.process(work)
	}()
}

func (b *c08Batch) wait() {
	if b.busy != nil {
		<-b.busy
		b.busy = nil
	}
}

func (b *c08Batch) finish() {
	b.flush()
	b.wait()
}

func (b *c08Batch) process(cases []c08Case) {
	// the real code, under h.Safely (timeout for the batch) with a recover per case
	t0 := time.Now()
	done := 0
	if crash := h.Safely(5*time.Minute, func() {
		for i := range cases {
			cs := &cases[i]
			f := minify.Number
			if cs.dec {
				f = minify.Decimal
			}
			cs.out, cs.problem = c08Call(f, cs.in, cs.prec)
			done = i + 1
		}
	}); crash != "" {
		cs := &cases[done]
		b.c.R.Add(h.Finding{Stage: b.st.Name, Kind: "crash", What: c08Name(cs.dec) + ": " + crash, Input: h.Q(cs.in), Hex: h.Hex(cs.in), Config: fmt.Sprintf("func=%s prec=%d", c08Name(cs.dec), cs.prec)})
		return
	}
	t1 := time.Now()
	lines := make([]string, 0, 2*len(cases))
	idxModel := make([]int, len(cases))
	idxHolds := make([]int, len(cases))
	for i := range cases {
		cs := &cases[i]
		op := "model.number "
		mode := int64(0)
		if cs.dec {
			op = "model.decimal "
			mode = 1
		}
		idxModel[i] = len(lines)
		lines = append(lines, op+h.Hex(cs.in)+" "+h.Int(int64(cs.prec)))
		idxHolds[i] = -1
		if cs.gram && cs.problem == "" {
			idxHolds[i] = len(lines)
			lines = append(lines, "spec.holds.c08 "+h.Int(mode)+" "+h.Hex(cs.in)+" "+h.Int(int64(cs.prec))+" "+h.Hex(cs.out))
		}
	}
	t2 := time.Now()
	rep, err := h.Eval(lines)
	if err != nil {
		b.err = err
		return
	}
	t3 := time.Now()
	defer func() {
		b.tImpl += t1.Sub(t0)
		b.tLines += t2.Sub(t1)
		b.tEval += t3.Sub(t2)
		b.tPost += time.Since(t3)
	}()
	// the math/big oracle is evaluated in parallel (pure function of the case)
	omasks := make([]int, len(cases))
	{
		var wg sync.WaitGroup
		nw := runtime.NumCPU()
		for k := 0; k < nw; k++ {
			wg.Add(1)
			go func(lo, hi int) {
				defer wg.Done()
				for i := lo; i < hi; i++ {
					if cases[i].gram && cases[i].problem == "" {
						omasks[i] = c08Oracle(cases[i].dec, cases[i].in, cases[i].prec, cases[i].out)
					}
				}
			}(len(cases)*k/nw, len(cases)*(k+1)/nw)
		}
		wg.Wait()
	}
	for i := range cases {
		cs := &cases[i]
		if b.distinct {
			// enumerated stages: every (function, lexeme, precision) occurs once by construction, so the
			// distinct-non-trivial count needs no key set (which would hold ~10^8 strings in the thorough tier)
			b.st.Evaluations++
			nt := b.nontrv(cs)
			if nt {
				b.st.Nontrivial++
			}
			if len(b.st.Samples) < 6 && (nt || b.st.Evaluations < 3) {
				b.st.Samples = append(b.st.Samples, c08Name(cs.dec)+"("+string(cs.in)+","+strconv.Itoa(cs.prec)+")")
			}
		} else {
			b.st.Count(c08Name(cs.dec)+"("+string(cs.in)+","+strconv.Itoa(cs.prec)+")", b.nontrv(cs))
		}
		mk := func(kind, what string) h.Finding {
			cfg := fmt.Sprintf("func=%s prec=%d", c08Name(cs.dec), cs.prec)
			return h.Finding{Stage: b.st.Name, Kind: kind, What: what, Input: h.Q(cs.in), Hex: h.Hex(cs.in), Config: cfg, Impl: h.Q(cs.out), Seed: b.c.Seed}
		}
		if cs.problem != "" {
			if cs.gram {
				kind := "fail"
				if strings.HasPrefix(cs.problem, "panic") || strings.HasPrefix(cs.problem, "timeout") {
					kind = "crash"
				}
				b.c.R.Add(mk(kind, c08Name(cs.dec)+": "+cs.problem))
			} else {
				b.st.Tag("nongrammar-" + strings.SplitN(cs.problem, " ", 2)[0])
			}
			continue
		}
		model, ok, msg := h.DecodeReply(rep[idxModel[i]])
		if !ok {
			f := mk("diff", "model error: "+msg)
			b.c.R.Add(f)
			continue
		}
		// (b) the property on the implementation's output
		if cs.gram {
			hb, hok, hmsg := h.DecodeReply(rep[idxHolds[i]])
			mask := -1
			if hok {
				mask, _ = strconv.Atoi(string(hb))
			}
			omask := omasks[i]
			if !hok {
				b.c.R.Add(mk("diff", "spec.holds.c08 error: "+hmsg))
			} else if mask != omask {
				b.c.R.Add(mk("diff", fmt.Sprintf("Lean specification (mask %d) and math/big oracle (mask %d) disagree about the implementation's output", mask, omask)))
			} else if mask != 0 {
				confirmed := true
				if cs.prec <= 0 && mask == 4 {
					if eq, usable := c08RatEqual(cs.in, cs.out); usable && eq {
						confirmed = false
					}
				}
				if !confirmed {
					b.c.R.Add(mk("diff", "specification says value changed but big.Rat says equal"))
				} else {
					f := mk("fail", c08Name(cs.dec)+": "+c08MaskText(mask))
					b.c.R.Add(f)
					continue
				}
			}
		}
		// (a) correspondence
		if !bytes.Equal(model, cs.out) {
			// at most two findings per (function, input): the same lexeme usually disagrees at every precision
			if b.ndiff == nil {
				b.ndiff = map[string]int{}
			}
			dk := c08Name(cs.dec) + string(cs.in)
			b.ndiff[dk]++
			b.st.Tag("diff")
			if b.ndiff[dk] <= 2 {
				f := mk("diff", "model."+strings.ToLower(c08Name(cs.dec)))
				f.Model = h.Q(model)
				b.c.R.Add(f)
			}
		}
		if cs.gram {
			switch {
			case bytes.Equal(cs.out, cs.in):
				b.st.Tag("out=unchanged")
			case bytes.IndexAny(cs.out, "eE") >= 0:
				b.st.Tag("out=exponent")
			case bytes.IndexByte(cs.out, '.') >= 0:
				b.st.Tag("out=fraction")
			default:
				b.st.Tag("out=integer")
			}
		}
	}
}

// ---------- generators ----------

// c08Grammar enumerates every string of the number grammar of exactly the lengths 1..maxLen over the digit set.
// emit(s, hasExp, mantissaDigits)
func c08Grammar(maxLen int, digits string, emit func(s []byte, hasExp bool, nd int)) {
	var digitStrs func(n int, f func([]byte))
	digitStrs = func(n int, f func([]byte)) {
		b := make([]byte, n)
		var rec func(i int)
		rec = func(i int) {
			if i == n {
				f(b)
				return
			}
			for k := 0; k < len(digits); k++ {
				b[i] = digits[k]
				rec(i + 1)
			}
		}
		rec(0)
	}
	for _, sign := range []string{"", "+", "-"} {
		for nd := 1; len(sign)+nd <= maxLen; nd++ { // number of mantissa digits
			for dot := -1; dot <= nd; dot++ { // -1: no dot; else dot before digit index `dot` (dot==nd: trailing dot)
				mlen := nd
				if dot >= 0 {
					mlen++
				}
				if len(sign)+mlen > maxLen {
					continue
				}
				digitStrs(nd, func(d []byte) {
					m := make([]byte, 0, maxLen)
					m = append(m, sign...)
					if dot < 0 {
						m = append(m, d...)
					} else {
						m = append(m, d[:dot]...)
						m = append(m, '.')
						m = append(m, d[dot:]...)
					}
					emit(append([]byte{}, m...), false, nd)
					for _, e := range []string{"e", "E"} {
						for _, es := range []string{"", "+", "-"} {
							for ne := 1; len(m)+1+len(es)+ne <= maxLen; ne++ {
								digitStrs(ne, func(x []byte) {
									s := make([]byte, 0, maxLen)
									s = append(s, m...)
									s = append(s, e...)
									s = append(s, es...)
									s = append(s, x...)
									emit(s, true, nd)
								})
							}
						}
					}
				})
			}
		}
	}
}

func c08RandDigits(r *h.RNG, n int, style int) []byte {
	b := make([]byte, n)
	for i := range b {
		switch style {
		case 0:
			b[i] = byte('0' + r.Intn(10))
		case 1:
			b[i] = "0159"[r.Intn(4)]
		case 2:
			b[i] = "9"[0]
			if r.Chance(5) {
				b[i] = byte('0' + r.Intn(10))
			}
		default:
			b[i] = '0'
			if r.Chance(10) {
				b[i] = byte('0' + r.Intn(10))
			}
		}
	}
	return b
}

func c08RandLexeme(r *h.RNG, withExp bool) []byte {
	var sb []byte
	sb = append(sb, r.Pick([]string{"", "", "+", "-", "-"})...)
	maxd := []int{3, 8, 20, 60, 400}[r.Intn(5)]
	ni := r.Intn(maxd + 1)
	nf := r.Intn(maxd + 1)
	if ni+nf == 0 {
		ni = 1
	}
	sb = append(sb, c08RandDigits(r, ni, r.Intn(4))...)
	if nf > 0 || r.Chance(20) {
		sb = append(sb, '.')
		sb = append(sb, c08RandDigits(r, nf, r.Intn(4))...)
	}
	if withExp && r.Chance(75) {
		sb = append(sb, r.Pick([]string{"e", "E"})...)
		var e *big.Int
		switch r.Intn(16) {
		case 0, 5, 6, 7:
			e = big.NewInt(int64(r.Intn(30)))
		case 1, 8, 9:
			e = big.NewInt(int64(r.Intn(1000)))
		case 10:
			e = new(big.Int).SetUint64(r.Next() >> uint(1+r.Intn(62)))
		case 2, 11: // near 2^31
			e = new(big.Int).Add(big.NewInt(1<<31), big.NewInt(int64(r.Intn(900)-450)))
		case 3: // near 2^63
			e = new(big.Int).Add(new(big.Int).Lsh(big.NewInt(1), 63), big.NewInt(int64(r.Intn(900)-450)))
		case 4: // near 2^64 and beyond
			e = new(big.Int).Add(new(big.Int).Lsh(big.NewInt(1), 64), big.NewInt(int64(r.Intn(900)-450)))
		default:
			e = big.NewInt(int64(r.Intn(ni + nf + 5)))
		}
		es := e.String()
		if r.Chance(15) {
			es = strings.Repeat("0", 1+r.Intn(3)) + es
		}
		sb = append(sb, r.Pick([]string{"", "+", "-", "-"})...)
		sb = append(sb, es...)
	}
	return sb
}

var c08Regress = []struct {
	dec  bool
	in   string
	prec int
	want string
}{
	{true, "99.5", 2, "100"}, {true, "999.5", 3, "1000"}, {true, "99.95", 3, "100"}, {true, "-99.5", 2, "-100"},
	{true, "9.5", 1, "10"}, {true, ".96", 1, "1"}, {true, "199.5", 3, "200"}, {true, "12345.678", 2, "12345.678"},
	// integer part of exactly prec, prec+1, prec+2 digits, fraction >= .5 and < .5: Decimal only removes digits after the dot
	{true, "2.9", 1, "3"}, {true, "2.4", 1, "2"}, {true, "12.9", 1, "12.9"}, {true, "10.4", 1, "10.4"}, {true, "123.9", 1, "123.9"}, {true, "123.4", 1, "123.4"},
	{true, "14.9", 2, "15"}, {true, "14.4", 2, "14"}, {true, "104.9", 2, "104.9"}, {true, "104.4", 2, "104.4"}, {true, "1044.9", 2, "1044.9"},
	{true, "123.75", 3, "124"}, {true, "1234.75", 3, "1234.75"}, {true, "12345.25", 3, "12345.25"}, {true, "45.51", 1, "45.51"}, {true, "+99.9", 1, "99.9"},
	{false, "99.5", 2, "100"}, {false, "1000", 0, "1e3"}, {false, "0.001", 0, ".001"}, {false, "-0", 0, "0"},
	{false, "1e-9223372036854775808", 0, "1e-9223372036854775808"}, {false, "100e-2", 0, "1"}, {false, ".0000001", 0, "1e-7"},
	{false, "123456e9223372036854775806", 2, "123456e9223372036854775806"},
	// fixed in bc4b03f (formerly K-C08-1/2): with a precision an exponent within len+1 of the int range leaves the lexeme alone
	{false, "123456.7e9223372036854775807", 2, "123456.7e9223372036854775807"},
	{false, "0.95e9223372036854775807", 1, "0.95e9223372036854775807"},
	{false, "9999999.9999999099e-9223372036854775803", 16, "9999999.9999999099e-9223372036854775803"},
	{false, "99.5e9223372036854775807", 2, "99.5e9223372036854775807"},
	{false, "123456.7e9223372036854775807", 0, "123456.7e9223372036854775807"},
	{false, "99.5e9223372036854775780", 2, "1e9223372036854775782"},
}

func init() {
	register("C08", func(c *Ctx) error {
		known := h.Known("C08")
		precs := []int{-1, 0}
		for p := 1; p <= 20; p++ {
			precs = append(precs, p)
		}
		nontrivial := func(cs *c08Case) bool { return cs.gram && !bytes.Equal(cs.out, cs.in) }
		newBatch := func(st *h.Stage) *c08Batch {
			return &c08Batch{c: c, st: st, limit: 300000, known: known, nontrv: nontrivial}
		}

		// ---- stage 0: known findings replay + fixed regression corpus ----
		for _, k := range known {
			if k.Status != "open" {
				continue
			}
			in := []byte(k.ReplayStr("input"))
			prec, _ := strconv.Atoi(k.ReplayStr("prec"))
			dec := k.ReplayStr("func") == "Decimal"
			f := minify.Number
			if dec {
				f = minify.Decimal
			}
			out, problem := c08Call(f, in, prec)
			still := problem != "" || c08Oracle(dec, in, prec, out) != 0
			c.R.AddKnown(k.ID, still, k.What, fmt.Sprintf("%s(%s,%d) = %s %s", c08Name(dec), h.Q(in), prec, h.Q(out), problem))
		}
		{
			st := c.R.StartStage("regress", "fixed regression corpus (repaired Decimal carry, zero forms, int64 edge exponents); non-trivial = output differs from input")
			b := newBatch(st)
			for _, g := range c08Regress {
				f := minify.Number
				if g.dec {
					f = minify.Decimal
				}
				out, problem := c08Call(f, []byte(g.in), g.prec)
				if problem != "" || string(out) != g.want {
					// a changed spelling alone is a correspondence difference; the batch below reports "fail" when the property itself is violated
					kind := "diff"
					if problem != "" {
						kind = "fail"
					}
					c.R.Add(h.Finding{Stage: st.Name, Kind: kind, What: c08Name(g.dec) + ": regression corpus entry gives a different result " + problem, Input: h.Q([]byte(g.in)),
						Config: fmt.Sprintf("func=%s prec=%d", c08Name(g.dec), g.prec), Impl: h.Q(out), Model: "expected " + strconv.Quote(g.want)})
				}
				b.add([]byte(g.in), g.prec, g.dec, true)
			}
			b.finish()
			st.End()
			if b.err != nil {
				return b.err
			}
		}

		// ---- stage 1: exhaustive grammar enumeration ----
		{
			maxLen := c.N(7, 9) // in search mode the quick tier keeps the bound but runs every precision
			st := c.R.StartStage("enum-grammar", fmt.Sprintf("every string of [+-]?(d+.?d*|.d+)([eE][+-]?d+)? with d in {0,1,4,5,9} up to length %d (Decimal: those without exponent part), precisions by lexeme length: at the bound 0 and two (thorough: one) of 1..#mantissa digits+1 (rotating); at bound-1 0 and all (thorough: three rotating) of 1..#digits+1; below that additionally all of -1..20 (thorough tier: for every lexeme, quick tier: for every 8th); non-trivial = output differs from input", maxLen))
			st.Exhaustive = true
			b := newBatch(st)
			b.distinct = true
			cnt := 0
			c08Grammar(maxLen, "01459", func(s []byte, hasExp bool, nd int) {
				cnt++
				for _, p := range precs {
					// precision schedule by lexeme length: up to bound-2 every precision -1..20 (thorough or search;
					// quick: 0, 1..digits+1, and all of them on every 8th lexeme); bound-1 and bound: 0 and some of
					// 1..digits+1 (see below).  Search mode runs everything below the bound fully.
					use := p == 0
					switch {
					case len(s) <= maxLen-2 || (c.Search && len(s) < maxLen):
						use = use || c.Thorough() || c.Search || (p >= 1 && p <= nd+1) || cnt%8 == 0
					case len(s) == maxLen-1:
						if c.Thorough() { // thorough: three rotating precisions out of 1..digits+1
							use = use || (p >= 1 && p <= nd+1 && (p == 1+cnt%(nd+1) || p == 1+(cnt/7+3)%(nd+1) || p == 1+(cnt/3+1)%(nd+1)))
						} else {
							use = use || (p >= 1 && p <= nd+1)
						}
					default:
						if c.Thorough() { // thorough: one rotating precision
							use = use || (p >= 1 && p <= nd+1 && p == 1+cnt%(nd+1))
						} else {
							use = use || (p >= 1 && p <= nd+1 && (p == 1+cnt%(nd+1) || p == 1+(cnt/7+3)%(nd+1)))
						}
					}
					if !use {
						continue
					}
					b.add(s, p, false, true)
					if !hasExp {
						b.add(s, p, true, true)
					}
				}
			})
			b.finish()
			st.End()
			c.R.Note("enum-grammar: %d lexemes; time in implementation calls %.1fs, protocol lines %.1fs, vdrv %.1fs, comparison %.1fs", cnt, b.tImpl.Seconds(), b.tLines.Seconds(), b.tEval.Seconds(), b.tPost.Seconds())
			if b.err != nil {
				return b.err
			}
		}

		// ---- stage 2: all strings over a small alphabet (totality; model vs implementation only unless grammatical) ----
		{
			maxLen := 5
			st := c.R.StartStage("enum-raw", "every string (grammatical or not) over {0,1,5,9,.,e,-,+} up to length 5, all precisions -1..20, Number and Decimal: no panic / no out-of-slice access is demanded only for grammatical inputs, model = implementation for all non-panicking inputs; non-trivial = grammatical and output differs from input")
			st.Exhaustive = true
			b := newBatch(st)
			b.distinct = true
			al := "0159.e-+"
			var rec func(prefix []byte)
			rec = func(prefix []byte) {
				if len(prefix) > 0 {
					s := append([]byte{}, prefix...)
					_, hasExp, ok := c08Parse(s)
					for _, p := range precs {
						b.add(s, p, false, ok)
						b.add(s, p, true, ok && !hasExp)
					}
				}
				if len(prefix) == maxLen {
					return
				}
				for k := 0; k < len(al); k++ {
					rec(append(prefix, al[k]))
				}
			}
			rec(nil)
			b.finish()
			st.End()
			if b.err != nil {
				return b.err
			}
		}

		// ---- stage 3: seeded random long lexemes ----
		{
			n := c.N(40000, 1500000)
			if c.Search {
				n *= 4
			}
			st := c.R.StartStage("random-long", "seeded random lexemes: mantissas up to 400+400 digits (uniform / {0,1,5,9} / mostly 9 / mostly 0), exponents small, near 2^31, near 2^63, near 2^64, with leading zeros; 3 precisions each out of -1..20 and around the digit count; non-trivial = output differs from input")
			b := newBatch(st)
			// h.NewRNG(seed) starts at seed*phi+const and steps by phi, so consecutive seeds yield the same stream
			// shifted by one; decorrelate the seeds before forking the per-case generators.
			rng := &h.RNG{S: c.Rng.Next() ^ ((c.Seed + 1) * 0xD6E8FEB86659FD93)}
			for i := 0; i < n; i++ {
				r := rng.Fork()
				dec := r.Chance(30)
				s := c08RandLexeme(r, !dec)
				_, hasExp, ok := c08Parse(s)
				if !ok {
					return fmt.Errorf("generator produced a non-grammatical lexeme %q", s)
				}
				nd := 0
				for _, ch := range s {
					if ch == 'e' || ch == 'E' {
						break
					}
					if c08IsDigit(ch) {
						nd++
					}
				}
				for k := 0; k < 3; k++ {
					p := precs[r.Intn(len(precs))]
					if k == 2 && nd > 2 {
						p = nd - 2 + r.Intn(4)
					}
					b.add(s, p, dec, !dec || !hasExp)
				}
			}
			b.finish()
			st.End()
			if b.err != nil {
				return b.err
			}
		}
		return nil
	})
}

package main

// C01 — rule-directed node differential.
//
// Every rewrite rule of js/js.go, js/util.go and js/stmtlist.go (the `=>` comments of the code plus the undocumented
// branches of optimizeCondExpr / optimizeUnaryExpr / optimizeStmt / optimizeStmtList) has a family of source templates
// that triggers it, together with NEAR MISSES (the same shape with one guard of the rule violated: the rewrite must not
// fire, or must fire differently).  Each template is instantiated
//   - in several expression contexts (`x=T;f(x)`, `f(T)`, `if(T)…`, `return T`),
//   - under run-time value environments: every free variable a,b,c,d of the template is assigned a value from
//     {undefined,null,0,1,-1,"","s","0",true,false,NaN,host object,host function,plain object,array} in front of the
//     program (first variable: all values in turn; the others: seeded), so that both outcomes of every guard
//     (nullish / falsy / NaN / object) are executed,
// minified by the real code (keepVarNames on and off) and executed under node against its input.
// Coverage: for every rule the number of instances whose output shows the rewrite (`hit` regexp) is recorded in the
// evidence (stage distribution "rule:<id>"); a rule none of whose templates triggers it any more is a finding.

import (
	"fmt"
	"os"
	"regexp"
	"sort"
	"strings"

	h "verifharness/h"
)

type c01Rule struct {
	id    string
	doc   string
	kind  byte     // 'E' expression templates (put into contexts), 'P' whole programs
	t     []string // templates
	hit   string   // regexp on the output of the first instance: the rewrite happened ("" = shape family / near misses)
	known string   // trigger of the known finding the family falls under ("" = none)
	gen   func() []string // further templates built by program (long declarations, many bindings)
}

// c01Rules: the enumerated rewrite rules with their trigger templates.
var c01Rules = []c01Rule{
	// ---- js.go: printing
	{id: "print-dangling-else", doc: "js.go:193 if(a){if(b)c}else d keeps the block unless it becomes an expression", kind: 'P',
		t: []string{"if(a){if(b)f(1)}else g(2)", "if(a){if(b)f(1);else h(3)}else g(2)", "function t(p){if(p){if(b)return 1}else return 2;f(3)}g(t(a))",
			"if(a){if(b)throw 1}else f(2)", "if(a){for(;b;)if(c)break}else f(2)", "if(a){if(b)f(1)}else;g(2)"}, hit: `\{if\(b\)|a\?b&&`},
	{id: "print-async-arrow", doc: "js.go:727 space after async in async a=>…", kind: 'P',
		t: []string{"x=async a=>a+1;x(1).then(f)", "x=async(p,q)=>p+q;x(1,2).then(f)", "x=async function(){return 1};x().then(f)"}, hit: `async a=>`},
	{id: "print-regex-script", doc: "js.go:962 </script>/ => < /script>/", kind: 'P',
		t: []string{"x=a< /script>/.test(b);f(x)", "x=a</script>/.test(b);f(x)"}, hit: `< /script>`},
	{id: "print-plus-plus", doc: "js.go:1047,1070 +++ => + ++, --- => - --, // => / /", kind: 'P',
		t: []string{"x=a+ ++b;f(x,b)", "x=a- --b;f(x,b)", "x=a+ +b;y=a- -b;f(x,y)", "x=a++ +b;f(x,a)", "x=a-- -b;f(x,a)", "x=+ +a;y=- -a;z=-+a;f(x,y,z)", "x=a/ /r/.source.length;f(x)",
			"x=+ ++a;y=- --b;f(x,y,a,b)", "x=a+ + +b;f(x)", "x=a- -1;y=a+ +1;z=a- -.5;f(x,y,z)"}, hit: `\+ \+\+b`},
	{id: "print-postfix-gt", doc: "js.go:1074 a-- >b, <!-- => <! --", kind: 'P',
		t: []string{"x=a-- >b;f(x,a)", "x=a<! --b;f(x,b)", "x=a-- >=b;f(x,a)", "x=a-- >>b;f(x,a)", "x=a<!--b;f(x,b)"}, hit: `a-- >b`},
	{id: "print-not-literal", doc: "js.go:1080-1092 !\"\" => !0, !\"s\" => !1, !/re/ => !1, !123 => !1", kind: 'P',
		t: []string{"x=!\"\";y=!\"s\";z=!5;w=!0;v=!/r/;f(x,y,z,w,v)", "x=!'';y=!`t`;z=!1e3;w=!0.0;f(x,y,z,w)", "x=!-1;y=!\"0\";z=![];w=!{};f(x,y,z,w)", "x=a<!5;y=a<<!0;f(x,y)", "x=!0n;y=!1n;z=!0x0;f(x,y,z)"}, hit: `x=!0,y=!1,z=!1,w=!0,v=!1`},
	{id: "print-number-dot", doc: "js.go:1107,1391 (5).a => 5..a, 1[\"a\"] => 1..a", kind: 'P',
		t: []string{"x=(5).a;y=(5.5).b;z=5..c;f(x,y,z)", "x=5[\"a\"];y=(5)[\"toFixed\"](1);z=1e3[\"a\"];f(x,y,z)", "x=(1).toString();y=(0x10).toString();z=(1n).toString();f(x,y,z)", "x=(5.0).toFixed(1);y=(1e21).toString();f(x,y)"}, hit: `5\.\.a`},
	{id: "call-isNaN", doc: "js.go:1257 isNaN(x) => x!=x", kind: 'E', t: []string{"isNaN(a)", "!isNaN(a)", "isNaN(a)?b:c", "isNaN(a)&&b"}, hit: `a!=a`, known: "K9-isnan"},
	{id: "call-isNaN-miss", doc: "js.go:1257 near misses: long name, expression argument, two arguments, member, shadowed", kind: 'P',
		t: []string{"abcdefg=a;x=isNaN(abcdefg);f(x)", "x=isNaN(a+1);f(x)", "x=isNaN(a,b);f(x)", "x=o1.isNaN(a);f(x)", "function t(isNaN){return isNaN(a)}f(t(g))", "x=isNaN();f(x)"}},
	{id: "call-Number", doc: "js.go:1277 Number(literal) => literal", kind: 'P',
		t: []string{"x=Number(true);y=Number(false);z=Number(null);w=Number(undefined);f(x,y,z,w)", "x=Number(100);y=Number(1.5);z=Number(0x10);w=Number(100n);f(x,y,z,w)", "x=Number(a);y=Number(\"12\");z=Number();f(x,y,z)",
			"x=Number(0b11n);y=Number(0o7);f(x,y)", "function t(Number){return Number(true)}f(t(g))", "x=Number(1e400);y=Number(-1);f(x,y)"}, hit: `x=1,y=0,z=0,w=NaN`},
	{id: "call-Math-pow", doc: "js.go:1312 Math.pow(a,b) => a**b", kind: 'E', t: []string{"Math.pow(a,b)", "Math.pow(a+1,b*2)", "Math.pow(-a,b)", "Math.pow(a,-b)", "Math.pow(a**b,c)", "Math.pow(a,b**c)", "-Math.pow(a,b)", "Math.pow(a,b)**c", "c**Math.pow(a,b)", "Math.pow(a,b,c)", "Math.pow(f(1),g(2))"}, hit: `a\*\*b`},
	{id: "call-Math-trunc-abs", doc: "js.go:1326,1340 Math.trunc(x) => x|0, Math.abs(x) => x<0?-x:x", kind: 'E', t: []string{"Math.trunc(a)", "Math.abs(a)", "Math.trunc(a+b)", "Math.abs(a)+1"}, hit: `a\|0`, known: "K4-math"},
	{id: "index-to-dot", doc: "js.go:1391,1408 a[\"b\"] => a.b, a[\"10\"] => a[10]", kind: 'P',
		t: []string{"x=o1[\"b\"];y=o1[\"10\"];z=o1[\"1.0\"];w=o1[\"a b\"];f(x,y,z,w)", "x=o1[\"010\"];y=o1[\".5\"];z=o1[\"1e3\"];w=o1[\"-1\"];v=o1[\"0\"];f(x,y,z,w,v)", "o1[\"b\"]=1;o1[\"if\"]=2;o1[\"9007199254740993\"]=3;f(o1.b)",
			"x={\"a\":1,\"b c\":2,\"1\":3,\"01\":4,\"1.5\":5};f(x)", "x=o1?.[\"b\"];y=o1?.[\"c d\"];f(x,y)", "x=o1[\"\\u0061\"];y=o1[\"π\"];f(x,y)", "x=\"s\"[\"length\"];y=[1][\"0\"];f(x,y)"}, hit: `x=o1\.b,y=o1\[10\],z=o1\["1\.0"\]`},
	{id: "stmt-comma-hoist", doc: "js.go:978 (a,b)&&c => a,b&&c at statement level only", kind: 'P',
		t: []string{"(f(1),g(2))&&h(3)", "(a,b)&&f(1)", "x=(a,b)&&c;f(x)", "(f(1),a)||g(2)", "(f(1),a)??g(2)", "(f(1),a)+g(2)", "(f(1),a)?g(1):h(2)", "(f(1),a).m", "if((f(1),a)&&b)g(2)", "(f(1),a|b)+c", "(f(1),a=b)&&g(2)", "(f(1),a)&&g(2),h(3)"}, hit: `^f\(1\),g\(2\)&&h\(3\)$`},
	{id: "arrow-body", doc: "js.go:742,770 arrow body: statements merged into the expression body, braces removed", kind: 'P',
		t: []string{"x=(p)=>{f(p);return p+1};g(x(1))", "x=p=>{return p+1};g(x(1))", "x=p=>{return{a:p}};g(x(1))", "x=p=>{f(p)};g(x(1))", "x=p=>{return};g(x(1))", "x=p=>{if(p)return 1;return 2};g(x(a))", "x=p=>{return p,1};g(x(1))",
			"x=p=>{return function(){}};g(typeof x(1))", "x=p=>{return p in o1};g(x(\"b\"))", "x=()=>{return a?b:c};g(x())", "x=async p=>{return await p};x(1).then(f)", "x=p=>{\"use strict\";return p};g(x(1))", "x=p=>{return(p,a)};g(x(1))"}, hit: `p=>\(f\(p\),p\+1\)`},
	{id: "fn-empty-return", doc: "js.go:770, stmtlist.go:370 superfluous return / continue removed", kind: 'P',
		t: []string{"function t(){f(1);return}t()", "function t(p){if(p){f(1);return}g(2)}t(a)", "function t(p){for(var i=0;i<2;i++){f(i);continue}}t(a)", "function t(p){for(var i=0;i<2;i++){if(p)continue;f(i)}}t(a)", "function t(p){if(p)return;f(2)}t(a)",
			"function t(){return void 0}g(t())", "function t(){return undefined}g(t())", "function t(){return f(1),void 0}g(t())", "x=()=>{f(1);return};g(x())", "function t(p){l:for(;;){for(;;){f(1);continue l}}}",
			"function t(p){switch(p){case 1:f(1);return}}t(a)", "function t(p){try{f(1);return}finally{g(2)}}t(a)", "function*t(){f(1);return}g([...t()])", "function t(undefined){return undefined}g(t(1))"}, hit: `function t\(\)\{f\(1\)\}`},
	{id: "fn-unused-params", doc: "js.go:531 unused trailing parameters removed", kind: 'P',
		t: []string{"function t(p,q,r){return p}f(t(1,2,3))", "function t(p,q,r){return q}f(t(1,2,3))", "function t(p,q){return arguments[1]}f(t(1,2))", "function t(p,q=f(9)){return p}g(t(1))", "function t(p,...q){return p}f(t(1,2))",
			"function t(p,{q}){return p}f(t(1,{}))", "x=(p,q)=>p;f(x(1,2))", "x={m(p,q){return p},set s(v){}};f(x.m(1,2))", "class C{constructor(p,q){this.p=p}}f(new C(1,2).p)", "function t(p,q){\"use strict\";return arguments.length}f(t(1,2))"}, hit: `function t\(p\)\{return p\}`},
	{id: "fn-length-eval", doc: "js.go:531 removing unused parameters changes Function.length and what a direct eval sees", kind: 'P',
		t: []string{"function t(p,q,r){return q}f(t(1,2,3),t.length)", "function t(p,q){return eval(\"q\")}f(t(1,2))", "x=function(p,q){};f(x.length)", "try{throw 1}catch(e){eval(\"g(e)\")}", "x={m(p,q){}};f(x.m.length)", "class C{m(p,q){}}f(new C().m.length)"}, known: "K12-fn-length"},
	{id: "lit-string", doc: "util.go:1236-1280 string literal: quotes, escapes", kind: 'P',
		t: []string{"x='a\"b';y=\"it's\";z=\"\\x41B\\101\";f(x,y,z)", "x=\"\\074\\200\\0001\";f(x)", "x='\\'\\\"';y=\"a\\\nb\";z='\\u{1F600}\\u0041';f(x,y,z)", "x=\"</script>\";y='<\\/script';z=\"<!--\";f(x,y,z)", "x='\\0';y='\\08';z=\"\\v\\f\\b\\t\\r\\n\";f(x,y,z)", "x=\"\\a\\c\\e\\-\";y='\\$\\{';f(x,y)", "x=\"`${\";y='a`b';f(x,y)"}, hit: `z="ABA"`},
	{id: "lit-template", doc: "js.go template literals", kind: 'P',
		t: []string{"x=`a${b}c`;y=`${\"a\"}b`;f(x,y)", "x=`a\\`b\\${`;y=`\\x41\\101`.length;f(x)", "x=f`a${b}c\\n`;y=String.raw`\\n${a}`;f(y)", "x=`\n`;y=`\\\n`;f(x,y)", "x=`${a}${b}`+`c`;f(x)"}, hit: "x=`a\\$\\{b\\}c`"},
	{id: "lit-number", doc: "util.go number literals: exponent, radix, leading/trailing zeros", kind: 'P',
		t: []string{"x=1000000;y=0x10;z=1.50;w=0.5;v=1e3;f(x,y,z,w,v)", "x=0b101;y=0o17;z=017;w=1_000;v=0xFFFFFFFFFFFFFFFF;f(x,y,z,w,v)", "x=1e21;y=1e-7;z=123456789012345680000;w=0.000001;v=5e-324;f(x,y,z,w,v)", "x=10n;y=0x10n;z=1000000n;f(x,y,z)", "x=.5e1;y=5.e1;z=0.0;w=-0;v=1.0e0;f(x,y,z,w,v)", "x=9007199254740993;y=0xfffffffffffff8;z=1e400;f(x,y,z)", "x=08;y=09.5;z=0.1+0.2;f(x,y,z)"}, hit: `x=1e6,y=16,z=1\.5,w=\.5,v=1e3`},
	{id: "lit-globals", doc: "js.go undefined => void 0 / 0[0], true => !0, false => !1, Infinity => 1/0", kind: 'P',
		t: []string{"x=undefined;y=true;z=false;w=Infinity;v=-Infinity;f(x,y,z,w,v)", "x=[undefined,true,false,Infinity,NaN];f(x)", "function t(undefined,Infinity){return[undefined,Infinity]}f(t(1,2))", "x=undefined+1;y=Infinity.toString();z=true.toString();f(x,y,z)",
			"x=a===undefined;y=typeof undefined;z=void 0;w=void f(1);f(x,y,z,w)", "x=2**Infinity;y=-Infinity**2;f(x)", "{let undefined=1;f(undefined)}", "x=a?undefined:1;y=a?void 0:2;f(x,y)"}, hit: `y=!0,z=!1,w=1/0,v=-\(1/0\)`},

	// ---- util.go: optimizeCondExpr
	{id: "cond-const", doc: "util.go optimizeCondExpr: constant condition (isTruthy/isFalsy)", kind: 'P',
		t: []string{"x=1?a:b;y=0?a:b;z=\"\"?a:b;w=!0?a:b;v=null?a:b;u=undefined?a:b;f(x,y,z,w,v,u)", "x=void 0?a:b;y=\"s\"?a:b;z=NaN?a:b;w=!1?a:b;v=!\"\"?a:b;f(x,y,z,w,v)", "x=(0)?f(1):g(2);y=!(1)?f(3):g(4)", "x=void f(1)?a:b;y=[]?a:b;z={}?a:b;w=-0?a:b;v=0n?a:b;g(x,y,z,w,v)",
			"x=/r/?a:b;y=1n?a:b;z=`t`?a:b;w=``?a:b;v=0.0?a:b;f(x,y,z,w,v)", "function t(undefined){return undefined?1:2}f(t(1))", "function t(NaN){return NaN?1:2}f(t(1))", "if(0)f(1);else g(2);if(1)f(3);else g(4)", "x=!!0?a:b;y=!!\"s\"?a:b;f(x,y)"}, hit: `x=a,y=b,z=b,w=a,v=b,u=b`},
	{id: "cond-not", doc: "util.go:841 !a?b:c => a?c:b, !!bool?b:c => bool?b:c", kind: 'E', t: []string{"!a?b:c", "!!a?b:c", "!!(a<b)?c:d", "!(a==b)?c:d", "!!!a?b:c", "!(a,b)?c:d", "!(a&&b)?c:d", "!f(1)?g(2):h(3)", "!!f(1)?g(2):h(3)", "(!a)?b:c"}, hit: `x=a\?c:b`},
	{id: "cond-self", doc: "util.go a?a:b => a||b, a?b:a => a&&b", kind: 'E', t: []string{"a?a:b", "a?b:a", "(a)?a:b", "a?(a):b", "a?b:(a)", "(x=a)?x:b", "(f(1),a)?a:b", "a?a:b?c:d", "a?a:(b,c)", "a?a:b=c", "a?a:b??c", "a?b??c:a", "a?b=c:a", "o1.p?o1.p:b", "a?a:a", "!a?a:b", "!a?b:a"}, hit: `x=a\|\|b`},
	{id: "cond-same", doc: "util.go a?b:b => a,b", kind: 'E', t: []string{"a?b:b", "f(1)?b:b", "a?(b):b", "a?o1.p:o1.p", "a?f(1):f(1)", "(a,c)?b:b", "a?1:1", "a?\"s\":\"s\""}, hit: `x=\(a,b\)`},
	{id: "cond-nullish", doc: "util.go:530 a==null?b:a => a??b", kind: 'E',
		t: []string{"a==null?b:a", "a!=null?a:b", "a===null||a===undefined?b:a", "undefined===a||null===a?b:a", "a!==undefined&&a!==null?a:b", "a===void 0||a===null?b:a", "null==a?b:a", "a==undefined?b:a", "a==void 0?b:a",
			"(a==null)?b:(a)", "a==null?f(1):a", "a==null?b||c:a", "a==null?b?c:d:a", "a==null?(b,c):a", "a==null?b=c:a", "(a==null?b:a)|c", "(a==null?b:a)||c", "c||(a==null?b:a)", "a==null||a==undefined?b:a", "a!=null&&a!=undefined?a:b",
			"a===null||a==undefined?b:a", "a==null||a===undefined?b:a", "a!==null&&a!=undefined?a:b"}, hit: `x=a\?\?b`},
	{id: "cond-nullish-miss", doc: "util.go:530 near misses: one strict test only, different variables, member base, swapped branches", kind: 'E',
		t: []string{"a===null?b:a", "a===undefined?b:a", "a!==null?a:b", "a===null||a===null?b:a", "a===undefined||a===undefined?b:a", "a===null||c===undefined?b:a", "a===null&&a===undefined?b:a", "a!==null||a!==undefined?a:b",
			"a==null?a:b", "a!=null?b:a", "o1.p==null?b:o1.p", "a==0?b:a", "a==\"\"?b:a", "a==false?b:a", "a==null?b:c", "a===null||a===undefined?a:b", "a==null||c?b:a", "a===null||a===void f(1)?b:a", "a===null|a===undefined?b:a"}},
	{id: "cond-optchain", doc: "util.go:533 a==null?undefined:a.b => a?.b", kind: 'E',
		t: []string{"a==null?undefined:a.b", "a==null?void 0:a.b.c", "a!=null?a.b():undefined", "a===null||a===undefined?undefined:a[b]", "a!=null?a():void 0", "a!==null&&a!==undefined?a.b.c():void 0", "undefined==a?undefined:a[b](c).b",
			"a==null?void 0:(a).b", "a==null?(undefined):a.b", "a==null?void 0:a.b[c].d(1)", "a==null?void 1:a.b", "a==null?void\"\":a.c", "a==null?undefined:a.b.c.d", "a==null?undefined:a.b(a)", "a==null?undefined:a[a]"}, hit: `x=a\?\.b`},
	{id: "cond-optchain-miss", doc: "util.go:533 near misses: the absent branch is not undefined (null, 0, a variable, void of an effect), the chain is not rooted at the variable, strict test", kind: 'E',
		t: []string{"a==null?null:a.b", "a!=null?a.b.c():null", "a===null||a===undefined?null:a.b", "a==null?0:a.b", "a==null?\"\":a.b", "a==null?false:a.b", "a==null?NaN:a.b", "a==null?b:a.b", "a==null?void f(1):a.b", "a!=null?a.b:null", "a!=null?a[b]:null",
			"a==null?null:a()", "a===null?undefined:a.b", "a===undefined?undefined:a.b", "a==null?undefined:c.b", "a==null?undefined:(a.b).c", "a==null?undefined:(a,c).b", "a==null?undefined:c.b(a)", "a==null?undefined:a", "a==null?a.b:undefined",
			"a!=null?undefined:a.b", "a==null?undefined:-a.b", "a==null?undefined:a.b+1", "a==null?undefined:new a.b", "a==null?undefined:a?.b", "a==null?null:a.b.c", "a!==null&&a!==undefined?a.b:null", "o1.p==null?undefined:o1.p.q"}},
	{id: "cond-optchain-template", doc: "util.go:533 a==null?undefined:a`t` => a?.`t` (a tagged template in an optional chain is a SyntaxError)", kind: 'E',
		t: []string{"a==null?undefined:a.b``", "a==null?undefined:a``", "a!=null?a.b`t${c}`:void 0"}, known: "K11-optchain-template"},
	{id: "cond-optchain-group", doc: "js.go GroupExpr (15c7753): a conditional that is the object of a member access / index / call is not turned into an optional chain, parentheses around an optional link stay", kind: 'E',
		t: []string{"(a==null?undefined:a.b).c", "(a==null?undefined:a.b)()", "(a==null?void 0:a.b)[c]", "(a?.b).c", "(a?.b)[c]", "(a?.b)()", "(a?.())()", "(a?.[b]).c", "new(a?.b)", "(a?.b).c(1)", "(a?.(c)).d(1)", "(a==null?undefined:a.b.c).d", "((a==null?undefined:a.b)).c",
			"(a==null?undefined:a.b).c=1", "(a==null?b:a).c", "(c?(a==null?undefined:a.b):d).b", "new(a==null?undefined:a.b)", "(a==null?undefined:a.b)+1", "-(a?.b)", "(a?.b)||c", "(a==null?undefined:a.b)``"}, hit: `x=\(a==null\?0\[0\]:a\.b\)\.c`},
	{id: "optchain-group-long", doc: "js.go GroupExpr: parentheses around a longer optional chain in object position are still dropped (K-C01-10, pinned)", kind: 'E',
		t: []string{"(a?.b.c).d", "(a?.b.c)()", "(a?.[b].c)[d]", "(a?.b(c)).d"}, known: "K10-optchain-group"},
	{id: "cond-call-merge", doc: "util.go a?f(b):f(c) => f(a?b:c)", kind: 'E',
		t: []string{"a?f(b):f(c)", "a?f(b):g(c)", "a?o1.m(b):o1.m(c)", "a?f(b,1):f(c,1)", "a?f():f()", "a?f(...b):f(c)", "a?f(b):f(...c)", "a?(f)(b):f(c)", "a<b?f(1):f(2)", "a?f(b?1:2):f(c)", "a?f(b):f(c?1:2)", "a?new f(b):new f(c)", "a?f(b)(1):f(c)(1)", "a?f?.(b):f?.(c)"}, hit: `x=f\(a\?b:c\)`},
	{id: "cond-call-merge-effect", doc: "util.go call merging below a condition with side effects (K-C01-2)", kind: 'P', t: []string{"x=(f=g,1)?f(1):f(2)", "x=(f=g,a)?f(1):f(2);h(x)", "x=h(f=g)?f(1):f(2)"}, known: "K2-call-merge"},
	{id: "cond-bool", doc: "util.go:886 a?true:false => !!a, a?false:true => !a, a?true:b => !!a||b, a?b:true => !a||b, a?false:b => !a&&b, a?b:false => !!a&&b", kind: 'E',
		t: []string{"a?true:false", "a?false:true", "a<b?true:false", "a<b?false:true", "a==b?false:true", "a?true:b", "a?b:true", "a?false:b", "a?b:false", "a?!0:!1", "a?!1:!0", "a?!0:b", "a?b:!1", "a?!\"\":b", "a?b:!\"s\"", "a?!5:b", "a&&b?true:false", "a||b?false:true",
			"!a?true:false", "!a?false:true", "(a,b)?true:false", "a?true:true", "a?false:false", "a?true:(b,c)", "a?b=c:false", "a?true:b?c:d", "a==b?true:c", "a!=b?c:true", "a===b?false:c", "a<b?c:false", "a in o1?true:false", "a instanceof f?false:true", "f(1)?true:false", "f(1)?false:g(2)",
			"a?(true):(false)", "a?!!b:false", "a?true:!b", "a?!(b):true", "a?b:!0", "a??b?true:false"}, hit: `x=!!a,`},
	{id: "cond-nested", doc: "util.go a?(b?c:d):d => a&&b?c:d", kind: 'E', t: []string{"a?(b?c:d):d", "a?b?c:d:d", "a?(b?c:(d)):d", "a?(b?c:d):c", "a?b:(c?b:d)", "a?(b?c:o1.p):o1.p", "a||p?(b?c:d):d", "a?(b||p?c:d):d", "a?(b,p?c:d):d", "a??p?(b?c:d):d", "a?(b??p?c:d):d", "f(1)?(g(2)?c:d):d"}, hit: `x=a&&b\?c:d`},
	{id: "cond-comma", doc: "util.go:912 (a,b)?c:d => a,b?c:d", kind: 'P', t: []string{"(f(1),a)?g(1):h(2)", "x=(f(1),a)?g(1):h(2)", "(f(1),a=b)?g(1):h(2)", "(f(1),a??b)?g(1):h(2)", "(f(1),a?b:c)?g(1):h(2)", "if((f(1),a))g(1);else h(2)", "function t(){return(f(1),a)?g(1):h(2)}t()", "(f(1),g(2),a)?g(1):h(2)", "(f(1),a)?g(1):h(2),k(3)"}, hit: `f\(1\),a\?g\(1\):h\(2\)`},

	// ---- util.go: optimizeUnaryExpr / optimizeBooleanExpr
	{id: "not-demorgan", doc: "util.go:769 !(a||b) => !a&&!b, !(a==0||b==0) => a!=0&&b!=0 (when shorter)", kind: 'E',
		t: []string{"!(a&&b)", "!(a==b&&c==d)", "!(a==b||c)", "!(!a||!b)", "!(a||b)", "!(a!=b||c!==d)", "!(a&&b||c)", "!(a&&(b||c))", "!((a||b)&&c)", "!(a==b&&c)", "!(a&&b==c)", "!(a<b&&c<d)", "!(a&&b)&&c", "!(a||b)||c", "c&&!(a||b)", "c||!(a&&b)", "!(a&&b)?c:d", "!(a=b,c&&d)",
			"!(a&&b&&c)", "!(a||b||c)", "!(a&&b+1&&c)", "!(a<b&&c&&d)", "!(a||b|c||d)", "!(a+1&&b&&c)", "!(a&&b&&c+1)", "!(a&&b<c&&d)", "!(a||b+1||c||d)", "!(a&&b&&c&&d)", "!(a*b&&c&&d)", "!(a&&b>>1&&c)", "!(a&&(b,c)&&d)", "!(a||b&&c||d)", "!(a&&b||c&&d)", "!(f(1)&&a-1&&g(2))", "!(a&&b&c&&d)", "!(a||b^c||d)", "!(a instanceof f&&b&&c)", "!(a in o1||b||c)", "!(a==b&&c==d&&p==q)", "!(a??b)", "!(!a&&!b)", "!(a==b||!c)", "!(f(1)&&g(2))", "!(f(1)==a||g(2)!=b)", "!!(a&&b)", "!!(a==b)", "!(a===b)==c", "c+!(a==b&&c==d)", "!(a==b&&c==d)+c", "typeof!(a==b||c==d)", "-!(a!=b&&c!=d)"}, hit: `x=!a\|\|!b`},
	{id: "not-compare", doc: "util.go !(a==b) => a!=b, !!a in a boolean position", kind: 'P', t: []string{"x=!(a==b);y=!(a!==b);z=!(a<b);f(x,y,z)", "if(!!a)f(1)", "x=!!a;f(x)", "x=!!!a;f(x)", "if(!(a==b))f(1);else g(2)", "x=!(a!=b)?c:d;f(x)", "for(;!!a;)break;while(!!(a<b))break", "x=!(a==b)+1;y=-!(a===b);f(x,y)", "x=!((a==b));y=!(a==b,c);f(x,y)",
		"x=!!(a<b);y=!!(a==b);z=!!(a&&b);w=!!!(a<b);f(x,y,z,w)", "x=!(a instanceof f);y=!(a in o1);f(x,y)", "x=!!a?1:2;y=!!a&&b;z=!!a||b;f(x,y,z)", "if(!!a&&!!b)f(1)", "x=[!!a,!a,!!!!a];f(x)"}, hit: `x=a!=b,y=a===b,z=!\(a<b\)`},
	{id: "str-concat", doc: "util.go:940 string concatenations merged", kind: 'P', t: []string{"x=\"a\"+\"b\"+c+\"d\"+\"e\";f(x)", "x=c+\"d\"+\"e\";f(x)", "x=c+1+\"d\"+\"e\";f(x)", "x=\"a\"+(\"b\"+c);f(x)", "x='a'+\"b\"+`c`;f(x)", "x=\"a\"+1+2;y=1+2+\"a\";f(x,y)", "x=c+(\"d\"+\"e\");f(x)", "x=\"</scr\"+\"ipt>\";f(x)", "x=c-\"d\"+\"e\";y=c*\"2\"+\"3\";f(x,y)", "x=\"a\\\n\"+\"b\";f(x)", "x=\"\\0\"+\"1\";f(x,x.length)", "x=\"\\ud83d\"+\"\\ude00\";f(x,x.length)"}, hit: `x="ab"\+c\+"de"`},
	{id: "cmp-typeof-null", doc: "js.go typeof a===\"s\" => ==, a===null||a===undefined => a==null", kind: 'P', t: []string{"x=typeof a===\"string\";y=\"number\"!==typeof b;f(x,y)", "x=a===null||a===undefined;y=a!==null&&a!==undefined;z=a==null||a==undefined;f(x,y,z)", "x=typeof a===typeof b;y=typeof a===c;f(x,y)",
		"x=a===null||a===null;y=a===undefined||a===undefined;z=a===null||b===undefined;f(x,y,z)", "x=null===a||void 0===a;y=a===null||a==undefined;f(x,y)", "x=a!==null||a!==undefined;y=a===null&&a===undefined;f(x,y)", "if(a===null||a===undefined)f(1);else g(2)", "x=typeof a===`string`;f(x)",
		"function t(undefined){return a===null||a===undefined}f(t(1))", "x=o1.p===null||o1.p===undefined;f(x)"}, hit: `typeof a=="string",y="number"!=typeof b`},

	// ---- stmtlist.go
	{id: "if-not-swap", doc: "stmtlist.go:191 if(!a)b;else c => if(a)c;else b", kind: 'P', t: []string{"if(!a)f(1);else g(2)", "if(!a){f(1);f(2)}else{g(2);g(3)}", "if(!(a&&b))f(1);else g(2)", "function t(p){if(!p)return 1;else return 2}f(t(a))", "if(!a)for(;;)break;else g(2)", "if(!a)f(1);else if(!b)g(2);else h(3)", "if(!!a)f(1);else g(2)"}, hit: `a\?g\(2\):f\(1\)`},
	{id: "if-to-expr", doc: "stmtlist.go:8 if/else => && || ?:", kind: 'P', t: []string{"if(a)f(1)", "if(a);else f(1)", "if(a)f(1);else g(2)", "if(a){f(1);g(2)}else h(3)", "if(a)x=1;else x=2;f(x)", "if(a)x=1;else y=2;f(x,y)", "if(a){}else{}f(1)", "if(a){}else f(2)", "if(a)f(1);else;", "if(a,b)f(1)", "if(a=b)f(1);else g(2)", "if(a||b)f(1)", "if(a&&b);else f(1)", "if(a??b)f(1)", "if(a?b:c)f(1);else g(2)", "if(a)b?f(1):g(2)",
		"if(a)f(1),g(2);else h(3)", "if(a)x=b?1:2;else x=3;f(x)", "if(a)if(b)f(1);else g(2)", "if(a){if(b)f(1)}else g(2)", "if(a)for(;;)break;else g(2)", "if(a)f(1);else for(;;)break", "if(a)var z=1;else z=2;f(z)", "if(a){let z=1;f(z)}else g(2)", "if(a)function z(){}", "if(a)yield_=1;else await_=2"}, hit: `a&&f\(1\)`},
	{id: "stmt-merge", doc: "stmtlist.go:223 expression statements merged into the following expression / return / throw / if / for / switch", kind: 'P',
		t: []string{"function t(p){f(1);g(2);return p}h(t(a))", "function t(p){f(1);throw p}try{t(a)}catch(e){h(e)}", "f(1);if(a)g(2)", "f(1);for(;a<1;a++)g(a)", "a=0;for(var i=0;i<2;i++)g(i,a)", "f(1);for(let i=0;i<2;i++)g(i)", "f(1);switch(a){case 1:g(1)}", "f(1);for(var k in o1)g(k)", "f(1);while(a<2)a++;g(a)",
			"f(1);g(2);h(3)", "f(1);for(;;)break", "f(1);for(g(2);;)break", "f(1);for(a in o1)break", "a in o1;for(;;)break", "x=a in o1;for(;;)break;f(x)", "f(a in o1);for(;;)break", "f(1);for(a of[1])g(a)", "f(1);do g(2);while(0)", "f(1);with(o1)g(2)", "f(1);l:for(;;)break l", "f(1);return_=2", "f(1);if(a)g(2);else h(3);k(4)",
			"function t(p){f(1);if(p)return 1;g(2);return 2}h(t(a))", "function t(p){f(1);return}t()", "f(1);throw a", "f(1);try{g(2)}finally{h(3)}", "f(1);var z=g(2);h(z)", "f(1);let z=g(2);h(z)", "f(1);class C{}", "f(1);function z(){}", "f(1);;g(2)", "f(1);{g(2)}h(3)", "\"use strict\";f(1);g(2)", "f(1);(a,b);g(2)", "a=b;c=d;f(a,c)", "a=1,b=2;c=3;f(a,b,c)"}, hit: `return f\(1\),g\(2\),p`},
	{id: "var-merge", doc: "stmtlist.go:275-289, vars.go:404 var a;a=5 => var a=5, declarations merged, vars hoisted", kind: 'P',
		t: []string{"var z;z=5;f(z)", "var z,y;f(1);z=5;y=6;f(z,y)", "let z=1;let y=2;f(z,y)", "const z=1;const y=2;f(z,y)", "var z=1;var y=2;f(z,y)", "var z=1;f(z);var y=2;g(y)", "var z=1;for(var i=0;i<2;i++)g(i,z)", "var z=1;for(;z<3;z++)g(z)", "function t(){f(z);var z=1;var y;g(z,y)}t()",
			"var z;z=f(z);g(z)", "var z,y;y=1;z=2;f(z,y)", "var z;y=1;z=2;var y;f(z,y)", "var z;z+=5;f(z)", "var z;[z]=[5];f(z)", "var z;z=5,y=6;f(z)", "var z;if(a)z=5;f(z)", "var z;f(1),z=5;g(z)", "var z=1;z=2;f(z)", "var z;z=()=>z;f(typeof z())", "let z;z=5;f(z)", "let z=1;f(z);let y=2;g(y)", "let z=1;const y=2;f(z,y)", "let z=1;var y=2;let w=3;f(z,y,w)",
			"var z=1;for(let i=0;i<2;i++)g(i,z)", "var z=1;for(var k in o1)g(k,z)", "var z=1;for(var k of[1,2])g(k,z)", "let z=1;for(let i=0;i<2;i++)g(i,z)", "var z=1;for(i=0;i<2;i++)g(i,z)", "var z=a in o1;for(var i=0;i<1;i++)g(z)", "var z=[a in o1];for(var i=0;i<1;i++)g(z)", "var z=1;for(;;){f(z);break}", "var z=1;while(z<3)z++;f(z)",
			"function t(){var z=1;{var y=2}return z+y}f(t())", "function t(){for(var i=0;i<2;i++){var w=i}return w}f(t())", "function t(p){if(p){var z=1}return z}f(t(a))", "function t(){z=1;var z;return z}f(t());f(typeof z)", "function t(){var z=1;var z=2;return z}f(t())", "function t(z){var z;return z}f(t(1))", "function t(z){var z=2;return z}f(t(1))",
			"function t(){var{a:z}=o1;var y=1;return[z,y]}f(t())", "function t(){var[z]=[1];var y=2;return z+y}f(t())", "var z=f(1),y=g(z);h(y)", "f(typeof z);var z=1", "function t(){return typeof z;var z}f(t())", "function t(){try{throw 1}catch(e){var z=e}return z}f(t())", "function t(){switch(a){case 1:var z=1;break;default:z=2}return z}f(t())",
			"function t(){l:{var z=1;break l}return z}f(t())", "function t(){for(var i in o1){var z=i}return[i,z]}f(t())", "function t(){var z=1;function u(){return z}var y=2;return u()+y}f(t())", "function t(){var z=arguments.length;var y=z;return y}f(t(1))", "var z=1;export_=z", "for(var i=0,z=1;i<1;i++);var y=2;f(i,z,y)"}, hit: `var z=5;f\(z\)`},
	{id: "if-return-merge", doc: "stmtlist.go:326 if/else followed by return/throw merged", kind: 'P',
		t: []string{"function t(p){if(p)return 1;return 2}f(t(a))", "function t(p){if(p)return f(1);else return g(2)}h(t(a))", "function t(p){if(p)throw 1;throw 2}try{t(a)}catch(e){h(e)}", "function t(p){if(p){return 1}else{f(2)}g(3)}h(t(a))", "function t(p){if(p)return 1;else if(b)return 2;return 3}f(t(a))", "function t(p){if(p)return;return 2}f(t(a))", "function t(p){if(p)return 1;return}f(t(a))",
			"function t(p){if(p)return 1;throw 2}try{f(t(a))}catch(e){h(e)}", "function t(p){if(p)throw 1;return 2}try{f(t(a))}catch(e){h(e)}", "function t(p){if(p){f(1);return 1}return 2}g(t(a))", "function t(p){if(p)return 1;f(2);return 2}g(t(a))", "function t(p){if(p)return 1;if(b)return 2;if(c)return 3;return 4}f(t(a))", "function t(p){if(p)return p;return b}f(t(a))",
			"function t(p){if(!p)return 1;return 2}f(t(a))", "function t(p){if(p)return 1;else return 2;f(3)}g(t(a))", "function t(p){if(p)return a,1;return 2}f(t(a))", "function t(p){if(p)return 1;return b?2:3}f(t(a))", "function t(p){if(p)return b?2:3;return 1}f(t(a))", "function t(p){if(p)return true;return false}f(t(a))", "function t(p){if(p)return p;return null}f(t(a))", "function t(p){if(p==null)return b;return p}f(t(a))",
			"function t(p){if(p==null)return;return p.b}f(t(a))", "function t(p){if(p==null)return undefined;return p.b}f(t(a))", "function t(p){if(p==null)return null;return p.b}f(t(a))", "function t(p){if(p!=null)return p.b.c();return null}f(t(a))", "function t(p){if(p!=null)return p.b;return void 0}f(t(a))", "for(;;){if(a)break;break}", "l:for(var i=0;i<2;i++){if(a)continue l;break}",
			"function t(p){for(var i=0;i<3;i++){if(i==p)break;f(i)}}t(a)", "function t(p){if(p)return 1;else{var z=2;return z}}f(t(a))", "function t(p){if(p){let z=1;return z}return 2}f(t(a))", "function t(p){if(p)return 1;function u(){}return u}f(typeof t(a))", "function t(p){if(p)throw f(1);else throw g(2)}try{t(a)}catch(e){h(e)}", "x=()=>{if(a)return 1;return 2};f(x())"}, hit: `return p\?1:2`},
	{id: "block-flatten", doc: "stmtlist.go:116-122 blocks merged into the parent, lexical declarations of an otherwise unused scope", kind: 'P',
		t: []string{"{f(1);g(2)}", "if(a){f(1)}", "{let z=f(1)}", "{let z=f(1);g(z)}", "{const z=f(1)}", "{let z=f(1),y=g(2)}", "{let z}", "{let z=f(1)}{let z=g(2)}", "{class Z{}}", "{function z(){}}f(typeof z)", "{var z=1}f(z)", "{{f(1)}}", "{}f(1)", "{f(1)}g(2)", "if(a){let z=f(1)}", "if(a){let z=f(1)}else{let y=g(2)}", "for(;;){let z=f(1);break}",
			"let z=1;{let z=2;f(z)}f(z)", "let z=1;{let z=f(2)}f(z)", "{let z=()=>z;f(typeof z)}", "function t(){{let z=f(1)}return 1}g(t())", "{let{z}=o1}", "{let[z]=[f(1)]}", "{let z=f(1);var y=z}g(y)", "l:{f(1);break l}", "{\"use strict\";f(1)}", "switch(a){case 1:{let z=f(1)}}", "try{let z=f(1)}catch(e){}", "x=()=>{{let z=f(1)}};x()", "if(a){function z(){}}else{f(typeof z)}"}, hit: `^f\(1\),g\(2\)$`},
	{id: "else-function-flatten", doc: "stmtlist.go: an else block with a function declaration is not flattened (96a3590)", kind: 'P',
		t: []string{"f(typeof z);if(a)throw 1;else{function z(){}}", "function t(p){g(typeof z);if(p)return 1;else{function z(){}}return typeof z}f(t(a))",
			"f(typeof z);if(a){function z(){}}else throw 1"}, hit: `throw 1;else\{function z\(\)\{\}\}`},
	{id: "class-effects", doc: "stmtlist.go:118 / util.go hasSideEffects (64da31a): heritage, computed keys, static initialisers and static blocks of a class are effects", kind: 'P',
		t: []string{"{class C{static s=f(1)}}", "if(a){class C{static s=f(1)}}", "{class C extends f(1){}}", "{class C{static{f(1)}}}", "{class C{[f(1)](){}}}", "{let z=class{static s=f(1)}}", "x=void class{static s=f(1)};g(x)"}, hit: `^\{class C\{static s=f\(1\)\}\}$`},
	{id: "class-pure", doc: "stmtlist.go:118 a block with a lone class without heritage, computed keys and static initialisers is dropped", kind: 'P',
		t: []string{"{class C{}}f(1)", "{class C{m(){f(1)}static t=1;u=f(2)}}g(3)", "if(a){class C{static m(){}}}g(1)", "{let z=class{}}f(1)", "{class C{}f(typeof C)}", "{class C{static s=1}f(C.s)}"}, hit: `^f\(1\)$`},
	{id: "hoist-object-pattern", doc: "vars.go hoistVars: a var declaration with an object pattern that binds nothing is parenthesised at the start of a statement (abc0f16)", kind: 'P',
		t: []string{"function t(){var {a}=o1;let z=1;var {n:[]}=o2}t()", "function t(){var {a}=o1;let z=1;var {}=o2;g(a)}t()", "var {a}=o1;let z=2;var {n:[]}=o2;g(a,z)"}, hit: `let z=1;\(\{n:\[\]\}=o2\)`},
	{id: "hoist-pattern", doc: "vars.go hoistVars: destructuring declarations as hoist target / converted to assignments", kind: 'P',
		t: []string{"function t(){var {a}=o1;f(a);var [b]=o2;g(b)}t()", "function t(){var z=1;f(z);var {a}=o1,y=2;g(a,y)}t()", "function t(){var {a}=o1;f(a);var {n:[]}=o2;g(1)}t()", "var {a}=o1;if(a)var {n:[]}=o2;g(a)", "var {a}=o1;for(var {n:[]}=o2;;)break",
			"function t(){var [a]=[1];let z=1;var [b]=[2];g(a,b,z)}t()", "function t(){var {a}=o1;f(a);var {b}=o2;g(b)}t()", "function t(){var z=1;for(var {a} of [o1])g(a,z)}t()", "function t(){var z=1;for(var k in o1)g(k,z)}t()"}, hit: `var\{a\}=o1,b;f\(a\),\[b\]=o2`},
	{id: "var-decl-order", doc: "js.go minifyVarDecl: declarators without initialiser are moved to the front, the others keep their order (stable sort; also for more than 12 declarators)", kind: 'P',
		gen: c01RuleLongVars, hit: `var v0=f\(0\),v1=f\(1\),v2=f\(2\)`},
	{id: "rename-many", doc: "vars.go renamer: short names are handed out in frequency order and skip reserved words (`in` is the 168th, `do` the 281st, `if` the 1140th name of a scope)", kind: 'P',
		gen: c01RuleManyBindings},
	{id: "yield-undefined", doc: "js.go YieldExpr: yield undefined => yield (not when undefined is a local)", kind: 'P',
		t: []string{"function*t(){yield undefined}f([...t()])", "function*t(undefined){yield undefined}f([...t(1)])", "function*t(){yield void 0;yield(undefined);yield}f([...t()])"}, hit: `function\*t\(\)\{yield\}`},
	{id: "yield-undefined-captured", doc: "js.go YieldExpr: undefined captured from an enclosing function is kept (2f191c7)", kind: 'P',
		t: []string{"function t(undefined){function*u(){yield undefined}return[...u()]}f(t(1))", "function t(undefined){return function*(){yield undefined}}f([...t(1)()])"}, hit: `function\*u\(\)\{yield undefined\}`},
	{id: "strict-block-function", doc: "vars.go renamer / parse/v2 scopes: in strict code a function declaration in a block is block scoped, the renamer binds references outside the block to it (K-C01-16, renaming = C02)", kind: 'P',
		t: []string{"\"use strict\";function t(p){{function z(){}}return typeof z}f(t(a))", "\"use strict\";function t(p){if(p)return 1;else{function z(){}}return typeof z}f(t(a))", "function t(p){\"use strict\";if(p){function z(){}}return typeof z}f(t(a))"}, known: "S18-strict-block-fn"},
	{id: "else-flatten-nested", doc: "stmtlist.go declaresKeptNames: an else block with let/const/class is not merged into a scope that keeps its names — also when the if sits in a nested block, loop body, try block or switch clause, and in functions with `with` (names of enclosing scopes reused)", kind: 'P',
		t: []string{"var x=\"global\";function t(p){for(;;){if(p){break}else{let x=2;g(x)}h(x);p=1}}t(0)",
			"var x=\"global\";function t(p){for(;;){if(p){break}else{const x=2;g(x)}h(x);p=1}}t(0)",
			"var x=\"global\";function t(p){for(;;){if(p){break}else{class x{};g(typeof x)}h(x);p=1}}t(0)",
			"var x=\"global\";function t(p){while(1){if(p){return}else{let x=2;g(x)}h(x);p=1}}t(0)",
			"var x=\"global\";function t(p){for(var i=0;i<2;i++){if(i){continue}else{let x=2;g(x)}h(x)}}t(0)",
			"var x=\"global\";function t(p){{if(p){return}else{let x=2;g(x)}h(x)}}t(0)",
			"var x=\"global\";function t(p){try{if(p){throw 1}else{let x=2;g(x)}h(x)}catch(e){k(e)}}t(0);t(1)",
			"var x=\"global\";function t(p){switch(p){case 0:if(p){break}else{let x=2;g(x)}h(x)}}t(0)",
			"var x=\"global\";function t(p){l:{if(p){break l}else{let x=2;g(x)}h(x)}}t(0)",
			"var x=\"global\";function t(p){for(var q of[0,1]){if(q){break}else{let x=2;g(x)}h(x)}}t(0)",
			"var x=\"global\";function t(p){for(;;){if(!p){let x=2;g(x)}else{break}h(x);p=1}}t(0)",
			"function t(p){for(;;){let x=1;if(p){break}else{let x=2;g(x)}h(x);p=1}}t(0)",
			"function t(p){{let x=1;if(p){return}else{let x=2;g(x)}h(x)}}t(0)",
			"function t(p,x){for(;;){if(p){break}else{let x=2;g(x)}h(x);p=1}}t(0,\"param\")",
			"var x=\"global\";function t(p,o){with(o){k(1)}for(;;){if(p){break}else{let x=2;g(x)}h(x);p=1}}t(0,{})",
			"var x=\"global\";function t(p,o){with(o){for(;;){if(p){break}else{let x=2;g(x)}h(x);p=1}}}t(0,{})",
			"var x=\"global\";x2=()=>{for(;;){if(a){break}else{let x=2;g(x)}h(x);a=1}};x2()",
			"var x=\"global\";for(;;){if(a){break}else{let x=2;g(x)}h(x);a=1}",
			"var x=\"global\";{if(a){}else{let x=2;g(x)}h(x)}",
			"var x=\"global\";function t(p){for(;;){for(;;){if(p){break}else{let x=2;g(x)}h(x);p=1}break}}t(0)",
			"var x=\"global\";class C{m(p){for(;;){if(p){break}else{let x=2;g(x)}h(x);p=1}}}new C().m(0)",
			"var x=\"global\";function t(p){for(;;){if(p){break}else{let y=2;g(y)}h(x);p=1}}t(0)"}, hit: `break;else\{let x=2;g\(x\)\}h\(x\)`},
	{id: "hoist-nested-target", doc: "vars.go hoistVars: the declaration that becomes the hoisting target may sit several blocks below the function scope; every block on the way must not reuse the hoisted names (AddUndeclared up to the function scope)", kind: 'P',
		t: []string{"function t(p){var r=p+1;for(let i=0;i<2;i++){if(p){var a1=i,b1=2,c1=3;k(a1,b1,c1)}}return r}f(t(1))",
			"function t(p){var r=p+1;for(let i=0;i<2;i++){{var a1=i,b1=2,c1=3;k(a1,b1,c1)}}return r}f(t(1))",
			"function t(p){var r=p+1;try{let e1=p;if(p){var a1=e1,b1=2,c1=3;k(a1,b1,c1)}}catch(e){k(e)}return r}f(t(1))",
			"function t(p){var r=p+1,s=p+2;for(let i=0;i<2;i++){for(let j=0;j<1;j++){if(p){var a1=i,b1=j,c1=3,d1=4;k(a1,b1,c1,d1)}}}return r+s}f(t(1))",
			"function t(p){var r=p+1;{let m=p;{let n=m;{var a1=n,b1=2,c1=3;k(a1,b1,c1)}}}return r}f(t(1))",
			"function t(p){var r=p+1;for(const i of[0,1]){if(p){var a1=i,b1=2,c1=3;k(a1,b1,c1)}}return r}f(t(1))",
			"function t(p){var r=p+1;switch(p){case 1:{let i=p;if(p){var a1=i,b1=2,c1=3;k(a1,b1,c1)}}}return r}f(t(1))",
			"function t(p){for(let i=0;i<2;i++){if(p){var a1=i,b1=2,c1=3;k(a1,b1,c1)}}var r=p+1;return r}f(t(1))",
			"function t(p){var r=p+1,q2=r;for(let i=0;i<2;i++){let w=i;if(p){var a1=w,b1=2,c1=3;k(a1,b1,c1)}k(w)}return r+q2}f(t(1))",
			"x2=p=>{var r=p+1;for(let i=0;i<2;i++){if(p){var a1=i,b1=2,c1=3;k(a1,b1,c1)}}return r};f(x2(1))"}, hit: `for\(let \w+=0`},
	{id: "cond-comma-const", doc: "util.go optimizeCondExpr: isTruthy of the whole condition, not of its final value: (f(),true)?x:y keeps f()", kind: 'P',
		t: []string{"x=(f(1),true)?b:c;g(x)", "x=(f(1),false)?b:c;g(x)", "x=(f(1),0)?b:c;g(x)", "x=(f(1),\"\")?b:c;g(x)", "x=(f(1),\"s\")?b:c;g(x)", "x=(f(1),null)?b:c;g(x)", "x=(f(1),undefined)?b:c;g(x)", "x=(f(1),NaN)?b:c;g(x)",
			"x=(f(1),!0)?b:c;g(x)", "x=(f(1),!1)?b:c;g(x)", "x=(a=b,1)?c:d;g(x,a)", "x=(f(1),g(2),5)?b:c;h(x)", "(f(1),true)?g(1):h(2)", "(f(1),0)?g(1):h(2)", "x=(a++,1)?b:c;g(x,a)", "x=((f(1),1))?b:c;g(x)",
			"function t(p){return(f(1),true)?p:2}g(t(a))", "x=[(f(1),0)?b:c];g(x)", "x=(f(1),void 0)?b:c;g(x)", "x=!(f(1),1)?b:c;g(x)", "x=(f(1),1)&&b;y=(f(2),0)||c;g(x,y)"}, hit: `x=\(f\(1\),!0\)\?b:c`},
	{id: "loop-rewrite", doc: "js.go while(a) => for(;a;), do-while, for body", kind: 'P', t: []string{"while(a<3)a++;f(a)", "do a++;while(a<3);f(a)", "for(;;){f(1);break}", "while(true){f(1);break}", "while(1)break;f(1)", "while(0)f(1);g(2)", "do{f(1)}while(0);g(2)", "do f(1);while(a>b&&0)", "for(;true;)break", "for(;!0;){f(1);break}", "while(a){a=0}", "for(;a;)a=0;",
		"do;while(f(1)<0)", "while(f(1),0);", "for(var i=0;i<2;i++){}f(i)", "for(var i=0;i<2;i++);f(i)", "for(var i=0;i<2;i++){f(i)}", "for(var i=0;i<2;i++){f(i);g(i)}", "for(var i=0;i<2;i++)if(a)f(i)", "while(a<3){a++;if(b)break}", "do{if(a)break;a=1}while(1)", "do var z=1;while(0);f(z)", "if(a)do f(1);while(0);else g(2)", "if(a)while(0);else g(2)"}, hit: `for\([^;]*;a<3;\)a\+\+`},
	{id: "dead-var-after-flow", doc: "stmtlist.go optimizeStmtList: statements after return/throw/break/continue are kept (a hoisted var declaration still binds)", kind: 'P',
		t: []string{"function t(){n=0;n++;return n;var n}f(t());f(typeof n)", "function t(p){if(p){r=1;return r;var r}return 2}f(t(a));f(typeof r)", "function t(p){switch(p){case 1:r=\"one\";break;var r;default:r=\"other\"}return r}f(t(1),t(2));f(typeof r)",
			"function t(){try{throw 1;var v=2}catch(e){v=3}return v}f(t());f(typeof v)", "for(var i=0;i<3;i++){if(i==1)continue;var w=i;f(w)}f(typeof w)", "function t(){e=5;return e;var e}var e=\"precious\";f(t(),e)", "function t(){\"use strict\";n=1;return n;var n}f(t())", "function t(){n=1;throw n;var n}try{t()}catch(e){f(e)}f(typeof n)",
			"function t(){for(;;){n=1;break;var n}return n}f(t());f(typeof n)", "function t(){l:{n=1;break l;var n}return n}f(t());f(typeof n)", "function t(){for(var i=0;i<2;i++){n=i;continue;var n}return n}f(t());f(typeof n)", "function t(){return u();function u(){return 1}}f(t())", "function t(){return n;var n=1}f(t());f(typeof n)",
			"function t(){n=1;return n;var n=2,m=3}f(t());f(typeof n,typeof m)", "function t(){n=1;return n;{var n}}f(t());f(typeof n)", "function t(){n=1;return n;if(a)var n}f(t());f(typeof n)", "function t(){n=1;return n;for(var n;;);}f(t());f(typeof n)", "function t(){n=1;return n;let m=2}f(t());f(typeof n)", "function t(){n=1;return n;f(2);g(3)}f(t())",
			"function t(){return 1;f(2)}g(t())", "function t(p){if(p)return 1;else return 2;var n}f(t(a))", "function t(){n=1;return()=>n;var n}f(t()());f(typeof n)", "x=()=>{n=1;return n;var n};f(x());f(typeof n)", "function t(){n=1;return n;var[n]=[2]}f(t());f(typeof n)", "function t(){throw 1;var n}try{t()}catch(e){f(e)}", "function t(){return;var n=f(1)}t()",
			"function t(){n=1;return n;class n{}}try{f(t())}catch(e){g(1)}", "function t(){return typeof n;function n(){}}f(t())", "switch(a){case 1:f(1);break;f(2);default:g(3)}", "for(;;){break;f(1)}", "function t(){return 1;return 2}f(t())", "function t(){throw 1;throw 2}try{t()}catch(e){f(e)}"}},
	{id: "for-init-in", doc: "js.go inFor: an `in` operator inside the initialiser of for(;;) is parenthesised (also inside a concise arrow body, not inside brackets/braces/calls/functions)", kind: 'P',
		t: []string{"for(var k1=(a in o1);;)break;f(k1)", "for(var k1=k=>(k in o1),i=0;i<2;i++)f(k1(\"z\"))", "var has=k=>k in o1;for(var i=0;i<2;i++)f(has(\"a\"))", "var has=k=>{return k in o1};for(var i=0;i<2;i++)f(has(\"a\"))", "for(var has=function(k){return k in o1},i=0;i<2;i++)f(has(\"a\"))",
			"for(var z=[a in o1],i=0;i<1;i++)f(z)", "for(var z={m:a in o1},i=0;i<1;i++)f(z.m)", "for(var z=f(a in o1);;)break", "for(var z=a?b in o1:c;;)break;f(z)", "for(var z=(a,b in o1);;)break;f(z)", "for(x=(a in o1);;)break;f(x)", "for((a in o1);;)break", "for(f(a in o1);;)break", "for(x=a?(b in o1):c;;)break;f(x)", "for(x=!(a in o1);;)break;f(x)",
			"for(var z=`${a in o1}`;;)break;f(z)", "for(var z=o1[a in o1];;)break;f(z)", "for(var z=k=>{return k in o1};;){f(z(\"a\"));break}", "for(var z=k=>l=>(l in o1);;){f(z(1)(\"a\"));break}", "for(var z=k=>(k in o1)?1:2;;){f(z(\"a\"));break}", "for(var z=k=>[k in o1];;){f(z(\"a\"));break}", "for(var z=(k=>(k in o1))(\"a\");;){f(z);break}",
			"for(var z=async k=>(k in o1);;){z(\"a\").then(f);break}", "for(var z=function(){for(var y=(a in o1);;)return y};;){f(z());break}", "for(var z=class{m(){return a in o1}};;){f(new z().m());break}", "for(var z={m(k){return k in o1}};;){f(z.m(\"a\"));break}", "for(let z=(a in o1);;){f(z);break}", "for(const z=k=>(k in o1);;){f(z(\"b\"));break}",
			"x=(a in o1);for(;;)break;f(x)", "var z=a in o1;for(var i=0;i<1;i++)f(z)", "var z=k=>k in o1,y=1;for(;y<2;y++)f(z(\"a\"))", "z=k=>k in o1;for(var i=0;i<1;i++)f(z(\"a\"))", "var z=k=>k in o1;for(i=0;i<1;i++)f(z(\"a\"))", "var z=k=>k in o1;for(;;){f(z(\"a\"));break}", "var z=k=>k in o1;for(var k2 in o1)f(z(k2))", "var z=k=>k in o1;for(var k2 of[\"a\"])f(z(k2))",
			"for(var z=(a in o1)in o1;;)break;f(z)", "for(var z=a instanceof f;;)break;f(z)", "for(var z=a in o1 in o2;;)break", "for(var i=(\"a\"in o1)?0:1;i<2;i++)f(i)", "for(var i=0;i in[1,2];i++)f(i)", "for(var i=0;i<2;i+=(\"a\"in o1)?1:2)f(i)", "for(var z=()=>{for(var y=(a in o1);;)return y};;){f(z());break}", "for(var z=k=>k in o1 in o2;;){f(z(\"a\"));break}",
			"for(var z=k=>(c,k in o1);;){f(z(\"a\"));break}", "for(var z=k=>c||k in o1;;){f(z(\"a\"));break}", "for(var z=k=>c?k in o1:1;;){f(z(\"a\"));break}", "for(var z=k=>!(k in o1);;){f(z(\"a\"));break}", "for(var z=k=>c=k in o1;;){f(z(\"a\"));break}", "for(var z=(k,l=k in o1)=>l;;){f(z(\"a\"));break}", "for(var z=k=>({m:k in o1});;){f(z(\"a\").m);break}"}, hit: `k1=k=>\(k in o1\)`},
	{id: "obj-literal", doc: "js.go object literals: shorthand, quoted keys, numeric keys, methods", kind: 'P', t: []string{"x={a:a,b:b,f:function(){return 1},\"c\":1,\"d e\":2,1:3};f(x)", "x={\"a\":a,'b':1,\"1\":2,\"01\":3,0x10:4,1e3:5,\"__proto__\":null};f(x)", "x={[a]:1,[\"b\"]:2,get c(){return 1},set c(v){},async*d(){}};f(x)", "x={a,b,...o1};f(x)", "({a:x,b:y=1}={a:1});f(x,y)", "x={\"constructor\":1,if:2,\"class\":3};f(x)", "class C{\"a\"(){return 1}static\"b\"=2;'c'=3;1(){}}f(new C().a(),C.b)"}, hit: `x=\{a,b,f:function\(\)\{return 1\},c:1,"d e":2,1:3\}`},
	{id: "new-args", doc: "js.go new X() => new X", kind: 'P', t: []string{"x=new Date(0);y=new Date;y=0;z=new(f())();f(x.getTime())", "x=new f;y=new f();z=new f(1);w=new f().a;v=new f.a();g(x,y,z,w,v)", "x=new(f())();y=new(f().a);z=new(f.a());w=(new f).a;v=new(f)(1);g(x,y,z,w,v)", "x=new new f()();y=new new f;z=new(new f);g(x,y,z)", "x=new f()();y=(new f)();z=new f()`t`;g(x,y,z)", "x=new(a?f:g)();y=new(a,f);z=new(f``);g(x,y,z)"}, hit: `y=new Date,y=0,z=new\(f\(\)\)`},
	{id: "catch-binding", doc: "js.go try{}catch(e){} => catch{} (ES2019)", kind: 'P', t: []string{"try{f(1)}catch(e){}", "try{f(1)}catch(e){g(2)}", "try{f(1)}catch(e){g(e)}", "try{f(1)}catch({message:m}){g(2)}", "try{f(1)}catch(e){var e=2}g(typeof e)", "try{f(1)}catch(e){{let e=1}}", "try{f(1)}catch(e){(()=>e)()}", "try{f(1)}finally{g(2)}", "try{}catch(e){f(1)}finally{g(2)}", "try{}finally{}f(1)"}, hit: `catch\{\}`},
	{id: "iife-fn-paren", doc: "js.go expectExpr: function/class/object/let[ at the start of an expression statement keep their parentheses", kind: 'P', t: []string{"x=function(){return 1}();f(x)", "!function(){f(1)}()", "(function(){f(1)})()", "(()=>{f(1)})()", "(function(){f(1)}())", "(function(){return f})()(1)", "(class{static m(){f(1)}}).m()", "({a:1}).a", "({}).toString.call(a)", "(function(){}).name,f(1)", "(async function(){f(1)})()", "(function*(){f(1)})().next()", "(a,function(){f(1)})()",
		"(function(){f(1)})(),g(2)", "(function(){f(1)})()?g(2):h(3)", "(function(){f(1)})()||g(2)", "(function(){}).a=1", "(function z(){f(typeof z)})()", "({a:f}).a(1)", "({a}=o1);f(a)", "({}=o1)", "([a]=[1]);f(a)", "(let_)[0]", "(async()=>{f(1)})()", "(a=>{f(a)})(1)", "(a=>f(a))(1)", "x=(a=>a)(1);f(x)", "(function(){f(1)}).call(o1)", "new(function(){f(1)})", "void function(){f(1)}()", "typeof function(){}", "`${function(){}}`", "f(function(){}(),1)"}, hit: `x=function\(\)\{return 1\}\(\)`},
	{id: "arrow-params", doc: "js.go arrow functions: single parameter without parentheses, object body parenthesised", kind: 'P', t: []string{"x=(p)=>p;f(x(1))", "x=(p,q)=>p+q;f(x(1,2))", "x=()=>1;f(x())", "x=(p=1)=>p;f(x())", "x=({p})=>p;f(x({p:1}))", "x=([p])=>p;f(x([1]))", "x=(...p)=>p;f(x(1))", "x=p=>({a:p});f(x(1))", "x=p=>({}).a;f(x(1))", "x=p=>(p,1);f(x(1))", "x=p=>(function(){});f(typeof x(1))", "x=p=>q=>p+q;f(x(1)(2))", "x=(p=>p)(1);f(x)", "x=p=>p?1:2;f(x(a))", "x=a?p=>p:q=>q;f(x(1))", "x=(p=>p)||b;y=a||(p=>p);f(typeof x,typeof y)", "x=(p=>p).length;f(x)", "x=typeof(p=>p);f(x)", "x=async(p)=>p;x(1).then(f)", "x=(async)=>async;f(x(1))", "x=(p)=>{};f(x(1))",
		"x=p=>p in o1;f(x(\"a\"))", "x=p=>(a,b);f(x(1))", "x=p=>a=b;f(x(1),a)", "x=p=>void 0;y=p=>undefined;f(x(1),y(1))", "f(p=>p,1)", "x=[p=>p,q=>q];f(x.length)", "x={m:p=>p};f(x.m(1))", "x=p=>{return}", "x=(p,q)=>{return p,q};f(x(1,2))"}, hit: `x=p=>p,f`},
}

var c01RuleEnvVals = []string{"undefined", "null", "0", "1", "\"\"", "\"s\"", "true", "false", "NaN", "o1", "f", "{b:{c:g,b:null},c:1}", "[1,2]", "-1", "\"0\"", "{}"}

var c01RuleVarRe = regexp.MustCompile(`(^|[^.\w$"'])([abcd])\b`)

// c01RuleFreeVars: which of a,b,c,d occur as identifiers (not as property names) in the template.
func c01RuleFreeVars(t string) []string {
	seen := map[string]bool{}
	for _, m := range c01RuleVarRe.FindAllStringSubmatch(t, -1) {
		seen[m[2]] = true
	}
	var out []string
	for _, v := range []string{"a", "b", "c", "d"} {
		if seen[v] {
			out = append(out, v)
		}
	}
	return out
}

var c01RuleCtx = []string{"x=%s;f(x)", "f(%s)", "if(%s)f(1);else g(2)", "function t(p){return %s}f(t(a))", "x=[%s,1];f(x)", "%s;f(1)", "x=(%s)||k(1);f(x)", "for(x=%s;;)break;f(x)", "x=p=>%s;f(x(1))"}

type c01RuleCase struct {
	rule  *c01Rule
	first bool // the instance the hit regexp is judged on
	src   string
	out   string
	keep  bool
}

// c01RulesStage is the rule-directed node differential (see the head of this file).
func c01RulesStage(c *Ctx) error {
	st := c.R.StartStage("rules-node", "rule-directed differential: every enumerated rewrite rule of js/js.go, js/util.go, js/stmtlist.go (and its near misses) instantiated from templates in several expression contexts and under value environments for its free variables (undefined, null, 0, 1, -1, \"\", \"s\", \"0\", true, false, NaN, host object, host function, object, array), minified with keepVarNames on and off, input and output executed by node; distribution rule:<id> = instances whose output shows the rewrite, shape:<id> = instances generated")
	r := c.Rng.Fork()
	nEnv := c.N(5, 16)
	if c.Search {
		nEnv = len(c01RuleEnvVals)
	}
	var cases []*c01RuleCase
	seen := map[string]bool{}
	add := func(rule *c01Rule, src string, first bool) {
		if seen[src] {
			return
		}
		seen[src] = true
		cases = append(cases, &c01RuleCase{rule: rule, src: src, first: first, keep: true})
		if rule.kind == 'P' || r.Chance(30) {
			cases = append(cases, &c01RuleCase{rule: rule, src: src, keep: false})
		}
	}
	for ri := range c01Rules {
		rule := &c01Rules[ri]
		tmpls := rule.t
		if rule.gen != nil {
			tmpls = append(append([]string(nil), tmpls...), rule.gen()...)
		}
		for ti, t := range tmpls {
			vars := c01RuleFreeVars(t)
			var bodies []string
			if rule.kind == 'E' {
				bodies = append(bodies, fmt.Sprintf(c01RuleCtx[0], t))
				n := 2
				if c.Thorough() || c.Search {
					n = len(c01RuleCtx) - 1
				}
				for _, k := range c01RulePerm(r, len(c01RuleCtx)-1)[:n] {
					bodies = append(bodies, fmt.Sprintf(c01RuleCtx[1+k], t))
				}
			} else {
				bodies = append(bodies, t)
			}
			for bi, body := range bodies {
				if len(vars) == 0 {
					add(rule, body, ti == 0 && bi == 0)
					continue
				}
				off := r.Intn(len(c01RuleEnvVals))
				for e := 0; e < nEnv; e++ {
					var pre strings.Builder
					for vi, v := range vars {
						val := c01RuleEnvVals[(off+e)%len(c01RuleEnvVals)]
						if vi > 0 {
							val = c01RuleEnvVals[r.Intn(len(c01RuleEnvVals))]
						}
						pre.WriteString(v + "=" + val + ";")
					}
					add(rule, pre.String()+body, ti == 0 && bi == 0 && e == 0)
				}
			}
		}
	}
	// minify
	var pairs []c01Pair
	var run []*c01RuleCase
	rejected := 0
	for _, cs := range cases {
		out, err, crash := c01Minify(cs.src, 0, cs.keep)
		if crash != "" {
			c.R.Add(h.Finding{Stage: "rules-node", Kind: "crash", What: "js.Minify " + crash, Input: cs.src})
			continue
		}
		if err != nil {
			rejected++
			if cs.first {
				c.R.Add(h.Finding{Stage: "rules-node", Kind: "diff", What: "rule " + cs.rule.id + ": js.Minify rejects the first template: " + err.Error(), Input: cs.src})
			}
			continue
		}
		cs.out = out
		run = append(run, cs)
		pairs = append(pairs, c01Pair{ID: len(pairs), A: cs.src, B: out, Seed: int(c.Seed)*100 + len(pairs)%7})
	}
	if rejected > 0 {
		c.R.Note("rules: js.Minify rejected %d of %d instances (forms the parser does not accept)", rejected, len(cases))
	}
	res, err := c01NodeCompare(pairs)
	if err != nil {
		return err
	}
	hits := map[string]int{}
	nfail := map[string]int{}
	var dump *os.File
	if p := os.Getenv("VERIF_C01_RULES_DUMP"); p != "" { // debugging aid: one line per instance
		if dump, err = os.Create(p); err != nil {
			return err
		}
		defer dump.Close()
	}
	firstOut := map[string]string{}
	skipped := 0
	for i, cs := range run {
		st.Count(fmt.Sprintf("%s [keepVarNames=%v]", cs.src, cs.keep), cs.out != cs.src)
		st.Tag("shape:" + cs.rule.id)
		if cs.rule.hit != "" && cs.keep {
			if ok, _ := regexp.MatchString(cs.rule.hit, cs.out); ok {
				hits[cs.rule.id]++
				st.Tag("rule:" + cs.rule.id)
			}
			if cs.first {
				firstOut[cs.rule.id] = cs.out
			}
		}
		rr := res[i]
		if dump != nil {
			fmt.Fprintf(dump, "%s\t%v\t%s\t%s\t%v\t%s\t%s\n", cs.rule.id, cs.keep, cs.src, cs.out, rr.Same, rr.Skip, rr.Why)
		}
		if rr.Skip != "" {
			skipped++
			st.Tag("skip:" + strings.SplitN(rr.Skip, ":", 2)[0])
			continue
		}
		if rr.Same {
			continue
		}
		if cs.rule.known != "" && c01OpenTriggers[cs.rule.known] {
			c.R.ExcludedKnown++
			st.Tag("known:" + cs.rule.known)
			continue
		}
		var ids []string
		for _, id := range append(c01SwClassify(cs.src), c01ClassifyExtra(cs.src)...) {
			if c01OpenTriggers[id] {
				ids = append(ids, id)
			}
		}
		if len(ids) > 0 {
			c.R.ExcludedKnown++
			st.Tag("known:" + strings.Join(ids, ","))
			continue
		}
		if nfail[cs.rule.id]++; nfail[cs.rule.id] > 3 {
			continue // at most three failing instances per rule are reported
		}
		c.R.Add(h.Finding{Stage: "rules-node", Kind: "fail", What: "rule " + cs.rule.id + ": behaviour of the minified program differs under node: " + c01DiffClass(rr.Why),
			Input: cs.src, Config: fmt.Sprintf("version=0 keepVarNames=%v", cs.keep), Impl: cs.out, Model: rr.Why + " | input: " + rr.OA + " | output: " + rr.OB})
	}
	if skipped > 0 {
		c.R.Note("rules-node: %d of %d executions skipped by the oracle (input does not run: syntax error / timeout)", skipped, len(pairs))
	}
	// coverage: every rule with a hit predicate must have been triggered
	var ids []string
	for ri := range c01Rules {
		if c01Rules[ri].hit != "" {
			ids = append(ids, c01Rules[ri].id)
		}
	}
	sort.Strings(ids)
	for _, id := range ids {
		if hits[id] == 0 {
			c.R.Add(h.Finding{Stage: "rules-node", Kind: "diff", What: "rewrite rule " + id + " is no longer triggered by any of its templates (rules hit = 0)", Input: id, Impl: firstOut[id]})
		}
	}
	st.End()
	return nil
}

// c01RuleLongVars: `var` statements with 13 … 40 declarators whose initialisers are host calls or depend on earlier
// declarators, some without initialiser (those are sorted to the front), as one statement or as several that are merged.
func c01RuleLongVars() []string {
	var out []string
	for _, n := range []int{3, 12, 13, 14, 20, 40} {
		for variant := 0; variant < 4; variant++ {
			var decl, use []string
			for i := 0; i < n; i++ {
				nm := fmt.Sprintf("v%d", i)
				use = append(use, nm)
				switch {
				case variant == 1 && i%3 == 2:
					decl = append(decl, nm) // no initialiser
				case variant == 2 && i > 0:
					decl = append(decl, fmt.Sprintf("%s=v%d+1", nm, i-1)) // data dependence
				case variant == 2:
					decl = append(decl, nm+"=1")
				default:
					decl = append(decl, fmt.Sprintf("%s=f(%d)", nm, i))
				}
			}
			if variant == 3 {
				out = append(out, "var "+strings.Join(decl, ";var ")+";g("+strings.Join(use, ",")+")")
				out = append(out, "function t(){var "+strings.Join(decl, ";var ")+";return["+strings.Join(use, ",")+"]}g(t())")
			} else {
				out = append(out, "var "+strings.Join(decl, ",")+";g("+strings.Join(use, ",")+")")
				out = append(out, "function t(){var "+strings.Join(decl, ",")+";return["+strings.Join(use, ",")+"]}g(t())")
			}
		}
	}
	return out
}

// c01RuleManyBindings: one scope with 60 … 1200 renamable bindings (locals, parameters, inner functions) that are all used.
func c01RuleManyBindings() []string {
	var out []string
	for _, n := range []int{60, 170, 300, 1200} {
		var names, decl, params, fns []string
		for i := 0; i < n; i++ {
			nm := fmt.Sprintf("w%d", i)
			names = append(names, nm)
			decl = append(decl, fmt.Sprintf("%s=%d", nm, i))
			if i < n/3 {
				params = append(params, nm)
			} else if i < 2*n/3 {
				fns = append(fns, fmt.Sprintf("function %s(){return %d}", nm, i))
			}
		}
		sum := strings.Join(names, "+")
		out = append(out, "function t(){var "+strings.Join(decl, ",")+";return "+sum+"}f(t())")
		out = append(out, "function t(){let "+strings.Join(decl, ",")+";return "+sum+"}f(t())")
		out = append(out, "function t("+strings.Join(params, ",")+"){"+strings.Join(fns, "")+"var "+strings.Join(decl[2*n/3:], ",")+";return "+strings.Join(params, "+")+"+"+names[n/3]+"()+"+strings.Join(names[2*n/3:], "+")+"}f(t(1,2,3))")
		out = append(out, "{let "+strings.Join(decl, ",")+";f("+sum+")}")
	}
	return out
}

func c01RulePerm(r *h.RNG, n int) []int {
	p := make([]int, n)
	for i := range p {
		p[i] = i
	}
	for i := n - 1; i > 0; i-- {
		j := r.Intn(i + 1)
		p[i], p[j] = p[j], p[i]
	}
	return p
}

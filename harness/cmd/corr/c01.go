package main

// C01 — JS minification preserves program behaviour.
//
// Correspondence source → bytes: ASTs of the modelled fragment are rendered to JS source (groups as
// parentheses), minified by the real code through (&js.Minifier{KeepVarNames:true, Version:v}).Minify and
// compared with the Lean model `model.c01.min`.  Independently of the model every (input, real output) pair
// goes through node (tools/jsrun.mjs): same host-call trace, same final globals, same completion.
// A sweep of programs outside the fragment goes through node only.

import (
	"os"
	"regexp"
	"bytes"
	"fmt"
	"runtime"

	"strconv"
	"strings"
	"sync"
	_ "time"

	mjs "github.com/tdewolff/minify/v2/js"
	pjs "github.com/tdewolff/parse/v2/js"

	"verifharness/h"
)

// ---------- AST of the fragment ----------

type c01E struct {
	K    byte // V N S T F Z U B C M L D I G
	Op   string
	S    string
	N    int
	Kids []*c01E
}

type c01S struct {
	K      string // E IF R0 R TH BL FN EM AB
	E      *c01E
	T, El  *c01S
	L      []*c01S
	Name   string
	Params []string
}

func c01V(n string) *c01E            { return &c01E{K: 'V', S: n} }
func c01N(n int) *c01E               { return &c01E{K: 'N', N: n} }
func c01Str(s string) *c01E          { return &c01E{K: 'S', S: s} }
func c01G(x *c01E) *c01E             { return &c01E{K: 'G', Kids: []*c01E{x}} }
func c01U(op string, x *c01E) *c01E  { return &c01E{K: 'U', Op: op, Kids: []*c01E{x}} }
func c01B(op string, x, y *c01E) *c01E { return &c01E{K: 'B', Op: op, Kids: []*c01E{x, y}} }
func c01C(c, x, y *c01E) *c01E       { return &c01E{K: 'C', Kids: []*c01E{c, x, y}} }
func c01M(l ...*c01E) *c01E          { return &c01E{K: 'M', Kids: l} }
func c01L(f *c01E, a ...*c01E) *c01E { return &c01E{K: 'L', Kids: append([]*c01E{f}, a...)} }
func c01D(x *c01E, n string) *c01E   { return &c01E{K: 'D', S: n, Kids: []*c01E{x}} }
func c01I(x, y *c01E) *c01E          { return &c01E{K: 'I', Kids: []*c01E{x, y}} }

var c01UText = map[string]string{"!": "!", "~": "~", "typeof": "typeof", "void": "void", "delete": "delete", "u+": "+", "u-": "-", "++x": "++", "--x": "--", "x++": "++", "x--": "--"}

func c01EncStr(s string) string {
	if s == "" {
		return "~"
	}
	return strings.ReplaceAll(s, " ", "_")
}

func (e *c01E) enc(sb *strings.Builder) {
	switch e.K {
	case 'V':
		sb.WriteString("V " + e.S + " ")
	case 'N':
		sb.WriteString("N " + strconv.Itoa(e.N) + " ")
	case 'S':
		sb.WriteString("S " + c01EncStr(e.S) + " ")
	case 'T', 'F', 'Z':
		sb.WriteString(string(e.K) + " ")
	case 'U', 'B':
		sb.WriteString(string(e.K) + " " + e.Op + " ")
	case 'M':
		sb.WriteString("M " + strconv.Itoa(len(e.Kids)) + " ")
	case 'L':
		sb.WriteString("L " + strconv.Itoa(len(e.Kids)-1) + " ")
	case 'D':
		sb.WriteString("D " + e.S + " ")
	default:
		sb.WriteString(string(e.K) + " ")
	}
	for _, k := range e.Kids {
		k.enc(sb)
	}
}

func (e *c01E) src(sb *strings.Builder) {
	switch e.K {
	case 'V':
		sb.WriteString(e.S)
	case 'N':
		sb.WriteString(strconv.Itoa(e.N))
	case 'S':
		sb.WriteString("'" + e.S + "'")
	case 'T':
		sb.WriteString("true")
	case 'F':
		sb.WriteString("false")
	case 'Z':
		sb.WriteString("null")
	case 'U':
		if e.Op == "x++" || e.Op == "x--" {
			e.Kids[0].src(sb)
			sb.WriteString(" " + c01UText[e.Op])
		} else {
			sb.WriteString(c01UText[e.Op] + " ")
			e.Kids[0].src(sb)
		}
	case 'B':
		e.Kids[0].src(sb)
		sb.WriteString(" " + e.Op + " ")
		e.Kids[1].src(sb)
	case 'C':
		e.Kids[0].src(sb)
		sb.WriteString(" ? ")
		e.Kids[1].src(sb)
		sb.WriteString(" : ")
		e.Kids[2].src(sb)
	case 'M':
		for i, k := range e.Kids {
			if i > 0 {
				sb.WriteString(" , ")
			}
			k.src(sb)
		}
	case 'L':
		e.Kids[0].src(sb)
		sb.WriteString(" ( ")
		for i, k := range e.Kids[1:] {
			if i > 0 {
				sb.WriteString(" , ")
			}
			k.src(sb)
		}
		sb.WriteString(" )")
	case 'D':
		e.Kids[0].src(sb)
		sb.WriteString(" . " + e.S)
	case 'I':
		e.Kids[0].src(sb)
		sb.WriteString(" [ ")
		e.Kids[1].src(sb)
		sb.WriteString(" ]")
	case 'G':
		sb.WriteString("( ")
		e.Kids[0].src(sb)
		sb.WriteString(" )")
	}
}

func (s *c01S) enc(sb *strings.Builder) {
	switch s.K {
	case "E", "R", "TH":
		sb.WriteString(s.K + " ")
		s.E.enc(sb)
	case "IF":
		sb.WriteString("IF ")
		s.E.enc(sb)
		s.T.enc(sb)
		s.El.enc(sb)
	case "BL":
		sb.WriteString("BL " + strconv.Itoa(len(s.L)) + " ")
		for _, x := range s.L {
			x.enc(sb)
		}
	case "FN":
		sb.WriteString("FN " + s.Name + " " + strconv.Itoa(len(s.Params)) + " ")
		for _, p := range s.Params {
			sb.WriteString(p + " ")
		}
		sb.WriteString(strconv.Itoa(len(s.L)) + " ")
		for _, x := range s.L {
			x.enc(sb)
		}
	default:
		sb.WriteString(s.K + " ")
	}
}

func (s *c01S) src(sb *strings.Builder) {
	switch s.K {
	case "E":
		s.E.src(sb)
		sb.WriteString(";")
	case "R0":
		sb.WriteString("return;")
	case "R":
		sb.WriteString("return ")
		s.E.src(sb)
		sb.WriteString(";")
	case "TH":
		sb.WriteString("throw ")
		s.E.src(sb)
		sb.WriteString(";")
	case "IF":
		sb.WriteString("if ( ")
		s.E.src(sb)
		sb.WriteString(" ) ")
		s.T.src(sb)
		if s.El.K != "AB" {
			sb.WriteString(" else ")
			s.El.src(sb)
		}
	case "BL":
		sb.WriteString("{ ")
		for _, x := range s.L {
			x.src(sb)
			sb.WriteString(" ")
		}
		sb.WriteString("}")
	case "FN":
		sb.WriteString("function " + s.Name + " ( " + strings.Join(s.Params, " , ") + " ) { ")
		for _, x := range s.L {
			x.src(sb)
			sb.WriteString(" ")
		}
		sb.WriteString("}")
	case "EM":
		sb.WriteString(";")
	}
}

type c01Prog []*c01S

func (p c01Prog) Src() string {
	var sb strings.Builder
	for i, s := range p {
		if i > 0 {
			sb.WriteString(" ")
		}
		s.src(&sb)
	}
	return sb.String()
}
func (p c01Prog) Enc() string {
	var sb strings.Builder
	sb.WriteString(strconv.Itoa(len(p)) + " ")
	for _, s := range p {
		s.enc(&sb)
	}
	return strings.TrimSpace(sb.String())
}

// ---------- the parser's well-formedness rule (what js.Parse produces for the rendering) ----------

type c01Bin struct {
	op                 string
	level, left, right int
}

func c01Bins() []c01Bin {
	A, LHS := int(pjs.OpAssign), int(pjs.OpLHS)
	var out []c01Bin
	for _, op := range []string{"=", "+=", "-=", "*=", "/=", "%=", "**=", "<<=", ">>=", ">>>=", "&=", "^=", "|=", "&&=", "||=", "??="} {
		out = append(out, c01Bin{op, A, LHS, A})
	}
	add := func(level, left, right pjs.OpPrec, ops ...string) {
		for _, op := range ops {
			out = append(out, c01Bin{op, int(level), int(left), int(right)})
		}
	}
	add(pjs.OpExp, pjs.OpUpdate, pjs.OpExp, "**")
	add(pjs.OpMul, pjs.OpMul, pjs.OpExp, "*", "/", "%")
	add(pjs.OpAdd, pjs.OpAdd, pjs.OpMul, "+", "-")
	add(pjs.OpShift, pjs.OpShift, pjs.OpAdd, "<<", ">>", ">>>")
	add(pjs.OpCompare, pjs.OpCompare, pjs.OpShift, "<", "<=", ">", ">=", "in", "instanceof")
	add(pjs.OpEquals, pjs.OpEquals, pjs.OpCompare, "==", "!=", "===", "!==")
	add(pjs.OpBitAnd, pjs.OpBitAnd, pjs.OpEquals, "&")
	add(pjs.OpBitXor, pjs.OpBitXor, pjs.OpBitAnd, "^")
	add(pjs.OpBitOr, pjs.OpBitOr, pjs.OpBitXor, "|")
	add(pjs.OpAnd, pjs.OpAnd, pjs.OpBitOr, "&&")
	add(pjs.OpOr, pjs.OpOr, pjs.OpAnd, "||")
	add(pjs.OpCoalesce, pjs.OpBitOr, pjs.OpBitOr, "??")
	return out
}

var c01BinTab = func() map[string]c01Bin {
	m := map[string]c01Bin{}
	for _, b := range c01Bins() {
		m[b.op] = b
	}
	return m
}()

// c01Level is the parser's precLeft after having parsed the node.
func c01Level(e *c01E) int {
	switch e.K {
	case 'V', 'N', 'S', 'T', 'F', 'Z', 'G':
		return int(pjs.OpPrimary)
	case 'U':
		if e.Op == "x++" || e.Op == "x--" {
			return int(pjs.OpUpdate)
		}
		return int(pjs.OpUnary)
	case 'B':
		return c01BinTab[e.Op].level
	case 'C':
		return int(pjs.OpAssign)
	case 'M':
		return int(pjs.OpExpr)
	case 'L':
		return int(pjs.OpCall)
	case 'D', 'I':
		if c01Level(e.Kids[0]) >= int(pjs.OpMember) {
			return int(pjs.OpMember)
		}
		return int(pjs.OpCall)
	}
	return 0
}

func c01Fits(e *c01E, req int) bool { return e.K == 'G' || c01Level(e) >= req }

func c01Assignable(e *c01E) bool {
	switch e.K {
	case 'V':
		return e.S != "undefined"
	case 'D', 'I':
		return true
	}
	return false
}

// c01Wrap returns e, parenthesised if it does not fit the required precedence.
func c01Wrap(e *c01E, req int) *c01E {
	if c01Fits(e, req) {
		return e
	}
	return c01G(e)
}
func c01WrapNullishLeft(e *c01E) *c01E {
	if e.K == 'G' || c01Level(e) >= int(pjs.OpBitOr) || c01Level(e) == int(pjs.OpCoalesce) {
		return e
	}
	return c01G(e)
}

// c01Mk builds a node from raw children, adding the parentheses the grammar requires; extra[i] forces a (redundant) group.
// ok=false when the form is not expressible (assignment to a non-assignable target).
func c01Mk(form string, kids []*c01E, extra uint) (*c01E, bool) {
	g := func(i int, e *c01E) *c01E {
		if extra&(1<<uint(i)) != 0 && e.K != 'G' {
			return c01G(e)
		}
		return e
	}
	if b, ok := c01BinTab[form]; ok {
		x, y := kids[0], kids[1]
		if b.level == int(pjs.OpAssign) {
			if !c01Assignable(x) {
				return nil, false
			}
		} else if form == "??" {
			x = c01WrapNullishLeft(x)
		} else {
			x = c01Wrap(x, b.left)
		}
		if b.level != int(pjs.OpAssign) {
			x = g(0, x)
		}
		y = g(1, c01Wrap(y, b.right))
		return c01B(form, x, y), true
	}
	switch form {
	case "!", "~", "typeof", "void", "u+", "u-":
		return c01U(form, g(0, c01Wrap(kids[0], int(pjs.OpUnary)))), true
	case "delete":
		if kids[0].K != 'D' && kids[0].K != 'I' {
			return nil, false
		}
		return c01U(form, kids[0]), true
	case "++x", "--x", "x++", "x--":
		if !c01Assignable(kids[0]) {
			return nil, false
		}
		return c01U(form, kids[0]), true
	case "?:":
		return c01C(g(0, c01Wrap(kids[0], int(pjs.OpCoalesce))), g(1, c01Wrap(kids[1], int(pjs.OpAssign))), g(2, c01Wrap(kids[2], int(pjs.OpAssign)))), true
	case ",":
		l := make([]*c01E, len(kids))
		for i, k := range kids {
			l[i] = g(i, c01Wrap(k, int(pjs.OpAssign)))
		}
		return c01M(l...), true
	case "call":
		l := make([]*c01E, len(kids))
		l[0] = g(0, c01Wrap(kids[0], int(pjs.OpCall)))
		for i, k := range kids[1:] {
			l[i+1] = g(i+1, c01Wrap(k, int(pjs.OpAssign)))
		}
		return &c01E{K: 'L', Kids: l}, true
	case "dot":
		x := kids[0]
		if x.K == 'N' {
			x = c01G(x)
		}
		return c01D(g(0, c01Wrap(x, int(pjs.OpCall))), "m"), true
	case "index":
		x := kids[0]
		return c01I(g(0, c01Wrap(x, int(pjs.OpCall))), g(1, kids[1])), true
	case "group":
		return c01G(kids[0]), true
	}
	return nil, false
}

func c01Arity(form string) int {
	if _, ok := c01BinTab[form]; ok {
		return 2
	}
	switch form {
	case "?:":
		return 3
	case ",", "index", "call":
		return 2
	}
	return 1
}

// ---------- exhaustive enumeration of small trees ----------

var c01QuickForms = []string{"=", "?:", "??", "||", "&&", "|", "^", "&", "==", "<", "<<", "+", "*", "**", ",", "!", "u-", "typeof", "x++", "call", "dot", "index"}

func c01AllForms() []string {
	var out []string
	for _, b := range c01Bins() {
		out = append(out, b.op)
	}
	return append(out, "?:", ",", "!", "~", "typeof", "void", "u+", "u-", "++x", "--x", "x++", "x--", "delete", "call", "dot", "index")
}

// c01Enum calls emit for every tree with exactly n operator nodes over the forms; leaves are the variables a, b, c, …
// in left-to-right order.  allGroups: every subset of redundant parentheses around children, otherwise only the
// minimal and the fully parenthesised variant.
func c01Enum(forms []string, n int, allGroups bool, emit func(*c01E)) {
	var rec func(n int, k func(*c01E))
	rec = func(n int, k func(*c01E)) {
		if n == 0 {
			k(c01V("_"))
			return
		}
		for _, f := range forms {
			ar := c01Arity(f)
			var dist func(i, left int, kids []*c01E)
			dist = func(i, left int, kids []*c01E) {
				if i == ar {
					if left != 0 {
						return
					}
					var masks []uint
					if allGroups {
						for m := uint(0); m < 1<<uint(ar); m++ {
							masks = append(masks, m)
						}
					} else {
						masks = []uint{0, (1 << uint(ar)) - 1}
					}
					for _, m := range masks {
						if e, ok := c01Mk(f, append([]*c01E(nil), kids...), m); ok {
							k(e)
						}
					}
					return
				}
				for take := 0; take <= left; take++ {
					if i == ar-1 && take != left {
						continue
					}
					rec(take, func(c *c01E) { dist(i+1, left-take, append(kids[:i:i], c)) })
				}
			}
			dist(0, n-1, nil)
		}
	}
	names := []string{"a", "b", "c", "d", "e", "p", "q"}
	rec(n, func(e *c01E) {
		next := 0
		var cp func(e *c01E) *c01E
		cp = func(e *c01E) *c01E {
			o := *e
			if e.K == 'V' && e.S == "_" {
				o.S = names[next%len(names)]
				next++
			}
			o.Kids = make([]*c01E, len(e.Kids))
			for i, k := range e.Kids {
				o.Kids[i] = cp(k)
			}
			return &o
		}
		emit(cp(e))
	})
}

// ---------- random generators ----------

type c01Gen struct {
	r     *h.RNG
	inFn  bool
	forms []string
}

var c01Vars = []string{"a", "b", "c", "d", "p", "q"}
var c01Funs = []string{"f", "g", "h"}

func (g *c01Gen) leaf() *c01E {
	r := g.r
	switch x := r.Intn(100); {
	case x < 50:
		return c01V(r.Pick(c01Vars))
	case x < 60:
		return c01N([]int{0, 1, 2, 5, 10, 42, 100, 1000, 12000}[r.Intn(9)])
	case x < 66:
		return c01Str([]string{"", "s", "ab", "a b"}[r.Intn(4)])
	case x < 72:
		return &c01E{K: 'T'}
	case x < 78:
		return &c01E{K: 'F'}
	case x < 84:
		return &c01E{K: 'Z'}
	case x < 92:
		return c01V("undefined")
	default:
		return c01L(c01V(r.Pick(c01Funs)), c01N(r.Intn(4)))
	}
}

// nullishShape: a conditional over a nullish test of a plain variable (the shapes of toNullishExpr and their near
// misses): test a==null / a!=null / a===null||a===undefined / … (also incomplete or over two variables), absent
// branch undefined / void 0 / null / 0 / a variable / a call, present branch the variable itself, a member/call/index
// chain rooted at it (possibly parenthesised), a chain rooted elsewhere, or anything
func (g *c01Gen) nullishShape(budget int) *c01E {
	r := g.r
	v := r.Pick(c01Vars)
	nul := func() *c01E {
		switch r.Intn(4) {
		case 0:
			return &c01E{K: 'Z'}
		case 1:
			return c01V("undefined")
		case 2:
			return c01U("void", c01N(0))
		}
		return &c01E{K: 'Z'}
	}
	cmp := func(op string, w string) *c01E {
		a, b := c01V(w), nul()
		if r.Chance(20) {
			a, b = b, a
		}
		return c01B(op, a, b)
	}
	var test *c01E
	neg := r.Bool()
	switch x := r.Intn(100); {
	case x < 40:
		test = cmp(map[bool]string{false: "==", true: "!="}[neg], v)
	case x < 50:
		test = cmp(map[bool]string{false: "===", true: "!=="}[neg], v)
	default:
		w := v
		if r.Chance(10) {
			w = r.Pick(c01Vars)
		}
		strict := func() string {
			if r.Chance(75) {
				return map[bool]string{false: "===", true: "!=="}[neg]
			}
			return map[bool]string{false: "==", true: "!="}[neg]
		}
		l, rr := c01B(strict(), c01V(v), &c01E{K: 'Z'}), c01B(strict(), c01V(w), c01V("undefined"))
		if r.Chance(15) {
			rr = c01B(strict(), c01V(w), &c01E{K: 'Z'}) // both sides test null
		}
		if r.Bool() {
			l, rr = rr, l
		}
		op := map[bool]string{false: "||", true: "&&"}[neg]
		if r.Chance(8) {
			op = map[bool]string{false: "&&", true: "||"}[neg]
		}
		test = c01B(op, l, rr)
	}
	if r.Chance(15) {
		test = c01G(test)
	}
	var absent *c01E
	switch x := r.Intn(100); {
	case x < 30:
		absent = c01V("undefined")
	case x < 45:
		absent = c01U("void", c01N(0))
	case x < 60:
		absent = &c01E{K: 'Z'}
	case x < 68:
		absent = c01N(0)
	case x < 72:
		absent = c01U("void", c01L(c01V(r.Pick(c01Funs)), c01N(1)))
	default:
		absent = g.expr(r.Intn(2))
	}
	chain := func(root *c01E) *c01E {
		e := root
		for n := 1 + r.Intn(3); n > 0; n-- {
			switch r.Intn(3) {
			case 0:
				e = c01D(e, r.Pick([]string{"m", "b", "k"}))
			case 1:
				e = c01I(e, c01Wrap(g.expr(r.Intn(2)), int(pjs.OpExpr)))
			default:
				e = c01L(e, c01Wrap(g.expr(r.Intn(2)), int(pjs.OpAssign)))
			}
		}
		return e
	}
	var present *c01E
	switch x := r.Intn(100); {
	case x < 25:
		present = c01V(v)
	case x < 65:
		present = chain(c01V(v))
	case x < 72:
		present = chain(c01G(c01V(v)))
	case x < 80:
		present = chain(c01V(r.Pick(c01Vars)))
	case x < 86:
		present = c01D(c01G(chain(c01V(v))), "m")
	default:
		present = g.expr(budget - 1)
	}
	absent, present = c01Wrap(absent, int(pjs.OpAssign)), c01Wrap(present, int(pjs.OpAssign))
	e := c01C(c01Wrap(test, int(pjs.OpCoalesce)), absent, present)
	if neg {
		e = c01C(c01Wrap(test, int(pjs.OpCoalesce)), present, absent)
	}
	if r.Chance(6) {
		// the conditional in parentheses as the object of a member access / call (open known finding K-C01-10 when it
		// becomes an optional chain)
		switch r.Intn(3) {
		case 0:
			return c01D(c01G(e), "m")
		case 1:
			return c01I(c01G(e), c01V(r.Pick(c01Vars)))
		}
		return c01L(c01G(e), c01N(1))
	}
	return e
}

// ltNotShape: `<` or `<<` whose right operand is printed with a leading `!<literal>` (directly, in parentheses, or as
// the chosen branch of a conditional with a constant test): the printer's `<!--` avoidance (isLtNot) keeps the literal
func (g *c01Gen) ltNotShape(budget int) *c01E {
	r := g.r
	lit := func() *c01E {
		if r.Chance(70) {
			return c01N([]int{0, 1, 5, 12000, 1000}[r.Intn(5)])
		}
		return c01Str([]string{"", "s"}[r.Intn(2)])
	}
	nl := c01U("!", lit())
	var rhs *c01E
	switch r.Intn(6) {
	case 0:
		rhs = nl
	case 1:
		rhs = c01G(nl)
	case 2:
		rhs = c01G(c01C(c01N([]int{1, 1000, 5}[r.Intn(3)]), nl, g.leaf()))
	case 3:
		rhs = c01G(c01C(c01N(0), g.leaf(), nl))
	case 4:
		rhs = c01G(c01C(c01V(r.Pick(c01Vars)), nl, g.leaf()))
	default:
		rhs = c01U("!", nl)
	}
	if r.Chance(30) {
		rhs = c01B([]string{"+", "*", "-"}[r.Intn(3)], rhs, g.leaf())
	}
	op := "<"
	if r.Chance(40) {
		op = "<<"
	}
	if e, ok := c01Mk(op, []*c01E{g.expr(budget - 2), rhs}, 0); ok {
		return e
	}
	return g.leaf()
}

// deMorganShape: `!` over a chain of two to four operands of `&&` / `||` (left- or right-nested) whose operands are
// variables, calls, negations, equality tests, and expressions between `||` and unary precedence (a+1, p<q, p|q):
// the De Morgan rewrite of optimizeUnaryExpr with its size score and its grouping decisions
func (g *c01Gen) deMorganShape() *c01E {
	r := g.r
	operand := func() *c01E {
		v := func() *c01E { return c01V(r.Pick(c01Vars)) }
		switch r.Intn(9) {
		case 0, 1:
			return v()
		case 2:
			return c01B(r.Pick([]string{"==", "!=", "===", "!=="}), v(), g.leaf())
		case 3:
			return c01B(r.Pick([]string{"+", "-", "*", "<", ">=", "|", "&", "^", "<<"}), v(), g.leaf())
		case 4:
			return c01U("!", v())
		case 5:
			return c01L(c01V(r.Pick(c01Funs)), c01N(r.Intn(3)))
		case 6:
			return c01B("??", v(), v())
		case 7:
			return c01B("=", v(), g.leaf())
		}
		return g.leaf()
	}
	op := r.Pick([]string{"&&", "||"})
	n := 2 + r.Intn(3)
	e := operand()
	for i := 1; i < n; i++ {
		o := op
		if r.Chance(12) {
			o = map[string]string{"&&": "||", "||": "&&"}[op]
		}
		var ok bool
		var ne *c01E
		if r.Chance(80) {
			ne, ok = c01Mk(o, []*c01E{e, operand()}, 0)
		} else {
			ne, ok = c01Mk(o, []*c01E{operand(), e}, 0)
		}
		if ok {
			e = ne
		}
	}
	out, ok := c01Mk("!", []*c01E{e}, 0)
	if !ok {
		return g.leaf()
	}
	if r.Chance(30) {
		if w, ok := c01Mk(r.Pick([]string{"&&", "||", "+", "=="}), []*c01E{out, g.leaf()}, 0); ok {
			return w
		}
	}
	return out
}

// expr generates an expression with about `budget` operator nodes.
func (g *c01Gen) expr(budget int) *c01E {
	r := g.r
	if budget <= 0 {
		return g.leaf()
	}
	if r.Chance(5) {
		return g.nullishShape(budget)
	}
	if r.Intn(250) == 0 {
		return g.ltNotShape(budget)
	}
	if r.Intn(40) == 0 {
		return g.deMorganShape()
	}
	if r.Intn(60) == 0 {
		// a conditional whose test is a parenthesised comma list that ends in a constant (isTruthy sees the whole test)
		konst := []*c01E{{K: 'T'}, {K: 'F'}, {K: 'Z'}, c01N(0), c01N(1), c01Str(""), c01Str("s"), c01V("undefined"), c01U("!", c01N(0))}[r.Intn(9)]
		head := c01L(c01V(r.Pick(c01Funs)), c01N(r.Intn(3)))
		if r.Chance(30) {
			head = c01B("=", c01V(r.Pick(c01Vars)), g.leaf())
		}
		return c01C(c01G(c01M(head, konst)), c01Wrap(g.expr(budget-2), int(pjs.OpAssign)), c01Wrap(g.leaf(), int(pjs.OpAssign)))
	}
	for try := 0; try < 20; try++ {
		var f string
		switch x := r.Intn(100); {
		case x < 22:
			f = "?:"
		case x < 34:
			f = "!"
		case x < 46:
			f = r.Pick([]string{"==", "!=", "===", "!=="})
		case x < 58:
			f = r.Pick([]string{"&&", "||", "??"})
		case x < 64:
			f = ","
		case x < 70:
			f = "call"
		case x < 76:
			f = "="
		default:
			f = r.Pick(g.forms)
		}
		ar := c01Arity(f)
		if f == "," && r.Chance(30) {
			ar = 3
		}
		if f == "call" {
			ar = 1 + r.Intn(3)
		}
		kids := make([]*c01E, ar)
		rest := budget - 1
		for i := range kids {
			b := 0
			if rest > 0 {
				if i == ar-1 {
					b = rest
				} else {
					b = r.Intn(rest + 1)
				}
			}
			rest -= b
			kids[i] = g.expr(b)
		}
		if f == "call" && r.Chance(70) {
			kids[0] = c01V(r.Pick(c01Funs))
		}
		if c01BinTab[f].level == int(pjs.OpAssign) && f != "" {
			if _, isBin := c01BinTab[f]; isBin && r.Chance(85) {
				kids[0] = c01V(r.Pick([]string{"x", "y", "a", "b"}))
			}
		}
		if (f == "++x" || f == "--x" || f == "x++" || f == "x--") && r.Chance(80) {
			kids[0] = c01V(r.Pick(c01Vars))
		}
		if f == "delete" {
			kids[0] = c01D(c01V(r.Pick(c01Vars)), "m")
		}
		var extra uint
		if r.Chance(25) {
			extra = uint(r.Intn(1 << uint(ar)))
		}
		// null/undefined comparisons of a variable (nullish rewrites)
		if (f == "==" || f == "!=" || f == "===" || f == "!==") && r.Chance(40) {
			kids[0] = c01V(r.Pick(c01Vars))
			if r.Bool() {
				kids[1] = &c01E{K: 'Z'}
			} else {
				kids[1] = c01V("undefined")
			}
			if r.Chance(20) {
				kids[0], kids[1] = kids[1], kids[0]
			}
		}
		if e, ok := c01Mk(f, kids, extra); ok {
			return e
		}
	}
	return g.leaf()
}

// c01OpenIf: the statement ends in an `if` without else (a following `else` would bind to it)
func c01OpenIf(s *c01S) bool {
	return s.K == "IF" && (s.El.K == "AB" || c01OpenIf(s.El))
}

func (g *c01Gen) stmt(depth int) *c01S {
	r := g.r
	ex := func() *c01E {
		e := g.expr(r.Intn(4))
		return e
	}
	x := r.Intn(100)
	if depth <= 0 && x >= 40 && x < 75 {
		x = 0
	}
	switch {
	case x < 40:
		e := ex()
		if r.Chance(60) {
			e = c01L(c01V(r.Pick(c01Funs)), c01Wrap(g.expr(r.Intn(3)), int(pjs.OpAssign)))
		}
		return &c01S{K: "E", E: e}
	case x < 70:
		s := &c01S{K: "IF", E: ex(), T: g.stmt(depth - 1), El: &c01S{K: "AB"}}
		if r.Chance(55) {
			s.El = g.stmt(depth - 1)
			if c01OpenIf(s.T) {
				// `if(a)if(b)x;else y` would attach the else to the inner if: the parser's tree has a block here
				s.T = &c01S{K: "BL", L: []*c01S{s.T}}
			}
		}
		return s
	case x < 75:
		n := r.Intn(4)
		b := &c01S{K: "BL"}
		for i := 0; i < n; i++ {
			b.L = append(b.L, g.stmt(depth-1))
		}
		return b
	case x < 88:
		if g.inFn {
			if r.Chance(20) {
				return &c01S{K: "R0"}
			}
			return &c01S{K: "R", E: ex()}
		}
		return &c01S{K: "TH", E: ex()}
	case x < 94:
		return &c01S{K: "TH", E: ex()}
	default:
		return &c01S{K: "EM"}
	}
}

func (g *c01Gen) prog() c01Prog {
	r := g.r
	if r.Chance(60) {
		g.inFn = true
		n := 1 + r.Intn(5)
		fn := &c01S{K: "FN", Name: "t", Params: [][]string{{}, {"p"}, {"p", "q"}, {"p", "q", "r"}}[r.Intn(4)]}
		for i := 0; i < n; i++ {
			fn.L = append(fn.L, g.stmt(2))
		}
		g.inFn = false
		call := &c01S{K: "E", E: c01B("=", c01V("x"), c01L(c01V("t"), c01V("a"), c01V("b")))}
		return c01Prog{fn, call}
	}
	n := 1 + r.Intn(5)
	var p c01Prog
	for i := 0; i < n; i++ {
		p = append(p, g.stmt(2))
	}
	return p
}

// ---------- running ----------

var c01Versions = []int{0, 2015, 2019, 2020, 2022}

func c01Minify(src string, ver int, keep bool) (out string, err error, crash string) {
	defer func() {
		if p := recover(); p != nil {
			crash = fmt.Sprintf("panic: %v", p)
		}
	}()
	var w bytes.Buffer
	err = (&mjs.Minifier{KeepVarNames: keep, Version: ver}).Minify(nil, &w, strings.NewReader(src), nil)
	out = w.String()
	return
}

type c01Case struct {
	prog     c01Prog
	src      string
	ver      int
	out      string
	tag      string
	rename   bool // KeepVarNames off
	minified bool
	seeds    int // host worlds per program under node (0 = 2)
}

func c01Ver2020(v int) bool { return v == 0 || v >= 2020 }

// c01RunStage minifies all cases with the real code, compares with the model and sends the pairs through node.
func c01RunStage(c *Ctx, name, rule string, cases []*c01Case, exhaustive bool, nodeShare int) error {
	st := c.R.StartStage(name, rule)
	st.Exhaustive = exhaustive
	lines := make([]string, 0, len(cases))
	idx := make([]int, 0, len(cases))
	type res struct {
		out   string
		err   error
		crash string
	}
	results := make([]res, len(cases))
	{
		var wg sync.WaitGroup
		nw := runtime.NumCPU()
		for w := 0; w < nw; w++ {
			wg.Add(1)
			go func(w int) {
				defer wg.Done()
				for i := w; i < len(cases); i += nw {
					o, e, cr := c01Minify(cases[i].src, cases[i].ver, true)
					results[i] = res{o, e, cr}
				}
			}(w)
		}
		wg.Wait()
	}
	for i, cs := range cases {
		out, err, crash := results[i].out, results[i].err, results[i].crash
		if crash != "" {
			c.R.Add(h.Finding{Stage: name, Kind: "crash", What: "js.Minify " + crash, Input: cs.src, Config: fmt.Sprintf("version=%d", cs.ver)})
			continue
		}
		if err != nil {
			// the generator only renders well-formed programs: a parse error is a generator/contract mismatch
			c.R.Add(h.Finding{Stage: name, Kind: "diff", What: "js.Minify rejects a program of the fragment: " + err.Error(), Input: cs.src})
			continue
		}
		cs.out = out
		cs.minified = true
		v := int64(0)
		if c01Ver2020(cs.ver) {
			v = 1
		}
		lines = append(lines, "model.c01.min "+h.Int(v)+" "+h.HexS(cs.prog.Enc()))
		idx = append(idx, i)
	}
	rep, err := h.Eval(lines)
	if err != nil {
		return err
	}
	unmodelled := 0
	var diffCases []*c01Case
	for k, i := range idx {
		cs := cases[i]
		key := fmt.Sprintf("%s [v%d]", cs.src, cs.ver)
		got, ok, msg := h.DecodeReply(rep[k])
		nontrivial := len(cs.out) < len(strings.ReplaceAll(cs.src, " ", ""))-0 && cs.out != strings.ReplaceAll(cs.src, " ", "")
		st.Count(key, nontrivial)
		if cs.tag != "" {
			st.Tag(cs.tag)
		}
		if strings.Contains(cs.out, "?.") {
			st.Tag("out:?.") // the optional-chaining rewrite fired (the input never contains `?.`)
		} else if strings.Contains(cs.out, "??") && !strings.Contains(cs.src, "??") {
			st.Tag("out:??")
		}
		if !ok {
			if msg == "unmodelled" {
				unmodelled++
				st.Tag("unmodelled")
				continue
			}
			c.R.Add(h.Finding{Stage: name, Kind: "diff", What: "model error " + msg, Input: cs.src, Config: fmt.Sprintf("version=%d", cs.ver), Impl: cs.out})
			continue
		}
		if string(got) != cs.out {
			diffCases = append(diffCases, cs)
			// at most 8 correspondence differences per stage are listed (the report holds 40 findings in all: the node
			// stages that follow must be able to add the failing inputs)
			if len(diffCases) <= 8 {
				c.R.Add(h.Finding{Stage: name, Kind: "diff", What: "model.c01.min ≠ js.Minify", Input: cs.src, Config: fmt.Sprintf("version=%d enc=%s", cs.ver, cs.prog.Enc()), Impl: cs.out, Model: string(got)})
			} else {
				st.Tag("diff-not-listed")
			}
		}
	}
	if unmodelled > 0 {
		c.R.Note("%s: %d of %d cases outside the modelled fragment (node only)", name, unmodelled, len(cases))
	}
	st.End()
	if nodeShare <= 0 {
		return nil
	}
	// independent oracle: a seeded sample of the (input, real output) pairs is executed by node
	var sample []*c01Case
	for i, cs := range cases {
		if cs.out == "" && cs.src != "" && !cs.minified {
			continue
		}
		if nodeShare >= 100 || (i*7919+int(c.Seed))%100 < nodeShare {
			sample = append(sample, cs)
		}
	}
	// every case on which model and real code disagree is executed (with more host worlds): a behavioural change
	// behind the disagreement yields a failing input
	for _, cs := range diffCases {
		cs.seeds = 8
		if len(diffCases) > 400 {
			cs.seeds = 2
		}
	}
	if c.Search {
		// a proof obligation or the translator broke: look harder for a failing input — every case of at most two
		// operator nodes (where a changed precedence row shows first) and a ten times larger sample of the rest
		var small, rest []*c01Case
		for i, cs := range cases {
			if !cs.minified {
				continue
			}
			if cs.tag == "ops=1" || cs.tag == "ops=2" {
				small = append(small, cs)
			} else if (i*7919+int(c.Seed))%100 < 10*nodeShare {
				rest = append(rest, cs)
			}
		}
		if len(rest) > 30000 {
			step := float64(len(rest)) / 30000
			var cut []*c01Case
			for k := 0; k < 30000; k++ {
				cut = append(cut, rest[int(float64(k)*step)])
			}
			rest = cut
		}
		sample = append(small, rest...)
	} else if !c.Thorough() && len(sample) > 3000 {
		// quick tier: at most 3000 programs per stage through node (evenly spread over the stage)
		step := float64(len(sample)) / 3000
		var cut []*c01Case
		for k := 0; k < 3000; k++ {
			cut = append(cut, sample[int(float64(k)*step)])
		}
		sample = cut
	}
	if len(diffCases) > 3000 {
		diffCases = diffCases[:3000]
	}
	inSample := map[*c01Case]bool{}
	for _, cs := range sample {
		inSample[cs] = true
	}
	for _, cs := range diffCases {
		if !inSample[cs] {
			sample = append(sample, cs)
		}
	}
	return c01NodeStage(c, name+"-node", sample, true)
}

// triggers of the open known findings (filled by c01KnownAndCorpus)
var c01OpenTriggers = map[string]bool{}

// c01DiffClass reduces a jsrun difference to its class (for the signature of a finding).
func c01DiffClass(why string) string {
	for _, k := range []string{"output does not parse", "trace", "completion", "globals", "lex", "objs"} {
		if strings.HasPrefix(why, k) {
			return k
		}
	}
	if i := strings.IndexAny(why, " :"); i > 0 {
		return why[:i]
	}
	return why
}

// c01NodeStage executes input and output of every case under node (2 host-world seeds each) and reports behavioural
// differences as failing inputs, unless the case falls under an open known finding (fragment: trig.c01.known in Lean;
// sweep: syntactic trigger c01SwClassify).
func c01NodeStage(c *Ctx, name string, cases []*c01Case, fragment bool) error {
	st := c.R.StartStage(name, "input and real output executed by node in fresh vm contexts with recording host functions/objects (2 seeded host worlds per program): same call trace, same final globals, same completion; non-trivial = output text differs from input text")
	var pairs []c01Pair
	lo := make([]int, len(cases)+1)
	for i, cs := range cases {
		n := 2
		if cs.seeds > 0 {
			n = cs.seeds
		}
		lo[i] = len(pairs)
		for k := 0; k < n; k++ {
			pairs = append(pairs, c01Pair{ID: len(pairs), A: cs.src, B: cs.out, Seed: int(c.Seed)*1000 + i*2 + k})
		}
	}
	lo[len(cases)] = len(pairs)
	res, err := c01NodeCompare(pairs)
	if err != nil {
		return err
	}
	type bad struct {
		cs  *c01Case
		res c01NodeResult
	}
	var bads []bad
	skipped := 0
	for i, cs := range cases {
		st.Count(cs.src+" ["+cs.cfg()+"]", cs.out != cs.src)
		for k := lo[i]; k < lo[i+1]; k++ {
			r := res[k]
			if r.Skip != "" {
				skipped++
				st.Tag("skip:" + strings.SplitN(r.Skip, ":", 2)[0])
				continue
			}
			if !r.Same {
				bads = append(bads, bad{cs, r})
				break
			}
		}
	}
	if skipped > 0 {
		c.R.Note("%s: %d of %d executions skipped by the oracle (input does not run: syntax error / timeout)", name, skipped, len(pairs))
	}
	// classify the failures
	var known []bool
	if fragment && len(bads) > 0 {
		lines := make([]string, len(bads))
		for i, b := range bads {
			v := int64(0)
			if c01Ver2020(b.cs.ver) {
				v = 1
			}
			lines[i] = "trig.c01.known " + h.Int(v) + " " + h.HexS(b.cs.prog.Enc())
		}
		rep, err := h.Eval(lines)
		if err != nil {
			return err
		}
		for _, r := range rep {
			got, ok, _ := h.DecodeReply(r)
			known = append(known, ok && string(got) == "1")
		}
	}
	listed := 0
	for i, b := range bads {
		kn := ""
		if fragment {
			if known[i] {
				kn = "K-C01 (trig.c01.known)"
			} else {
				// a program outside the model (e.g. `!<literal>` directly after `<`) cannot be judged by the Lean guard:
				// the syntactic triggers of the sweep apply (K1 `return a,b,undefined`, K2, K3)
				var ids []string
				for _, id := range c01SwClassify(b.cs.src) {
					if c01OpenTriggers[id] && strings.HasPrefix(id, "K") {
						ids = append(ids, id)
					}
				}
				kn = strings.Join(ids, ",")
			}
		} else {
			// only triggers of OPEN known findings count
			var ids []string
			for _, id := range append(c01SwClassify(b.cs.src), c01ClassifyExtra(b.cs.src)...) {
				if c01OpenTriggers[id] {
					ids = append(ids, id)
				}
			}
			kn = strings.Join(ids, ",")
		}
		if kn != "" {
			c.R.ExcludedKnown++
			st.Tag("known:" + kn)
			continue
		}
		if listed++; listed > 10 {
			st.Tag("fail-not-listed") // at most 10 failing inputs per stage are listed
			continue
		}
		c.R.Add(h.Finding{Stage: name, Kind: "fail", What: "behaviour of the minified program differs under node: " + c01DiffClass(b.res.Why),
			Input: b.cs.src, Config: b.cs.cfg(), Impl: b.cs.out, Model: b.res.Why + " | input: " + b.res.OA + " | output: " + b.res.OB})
	}
	st.End()
	return nil
}

func (cs *c01Case) cfg() string {
	return fmt.Sprintf("version=%d keepVarNames=%v", cs.ver, !cs.rename)
}

// c01ClassifyExtra: syntactic triggers of known findings found after the sweep generator was written.
// "S14-param-default-var": a function whose parameter list has a default value mentioning an identifier that the body of
// the same function declares with `var` (parse/v2 binds the body's uses of that name to the outer variable).
var c01ReYieldUndef = regexp.MustCompile(`\byield\s+\(*undefined\b`)

// `undefined` as a parameter (last: `undefined){` / `undefined)=>`; not last: `(undefined,…){`) or as a declared variable
var c01ReBindUndef = regexp.MustCompile(`\bundefined\s*\)\s*(\{|=>)|[(,]\s*undefined\s*[,=][^{};]*\)\s*(\{|=>)|\b(var|let|const)\s[^;]*\bundefined\s*[=,;]`)

var c01ReStrictBlockFn = regexp.MustCompile(`[{;]\s*\{\s*(async\s+)?function\b|\)\s*\{\s*(async\s+)?function\b|\belse\s*\{\s*(async\s+)?function\b`)

func c01ClassifyExtra(src string) []string {
	var out []string
	// S18: strict code with a function declaration directly in a block (the renamer treats it as function scoped)
	if strings.Contains(src, "use strict") && c01ReStrictBlockFn.MatchString(src) {
		out = append(out, "S18-strict-block-fn")
	}
	// S17: `yield undefined` where `undefined` may be a captured local of an enclosing function
	if c01ReYieldUndef.MatchString(src) && c01ReBindUndef.MatchString(src) {
		out = append(out, "S17-yield-shadow-undefined")
	}
	isID := func(c byte) bool { return c == '_' || c == '$' || c >= '0' && c <= '9' || c >= 'a' && c <= 'z' || c >= 'A' && c <= 'Z' }
	idents := func(t string) map[string]bool {
		m := map[string]bool{}
		for i := 0; i < len(t); {
			if isID(t[i]) && !(t[i] >= '0' && t[i] <= '9') {
				j := i
				for j < len(t) && isID(t[j]) {
					j++
				}
				m[t[i:j]] = true
				i = j
			} else {
				i++
			}
		}
		return m
	}
	match := func(i int, open, close byte) int { // index after the matching bracket, -1 if none
		depth := 0
		for ; i < len(src); i++ {
			switch src[i] {
			case open:
				depth++
			case close:
				depth--
				if depth == 0 {
					return i + 1
				}
			}
		}
		return -1
	}
	for i := 0; i+8 < len(src); i++ {
		if !strings.HasPrefix(src[i:], "function") || (i > 0 && isID(src[i-1])) {
			continue
		}
		po := strings.IndexByte(src[i:], '(')
		if po < 0 {
			break
		}
		pe := match(i+po, '(', ')')
		if pe < 0 {
			break
		}
		params := src[i+po : pe]
		if !strings.Contains(params, "=") {
			continue
		}
		bo := strings.IndexByte(src[pe:], '{')
		if bo < 0 {
			continue
		}
		be := match(pe+bo, '{', '}')
		if be < 0 {
			continue
		}
		body := src[pe+bo : be]
		used := idents(params)
		for j := 0; j+4 < len(body); j++ {
			if strings.HasPrefix(body[j:], "var ") && (j == 0 || !isID(body[j-1])) {
				k := j + 4
				for k < len(body) && isID(body[k]) {
					k++
				}
				if used[body[j+4:k]] {
					return append(out, "S14-param-default-var")
				}
			}
		}
	}
	return out
}

// ---------- known findings, regression corpus, sweep ----------

// inputs of defects that were repaired in /repo (fix: commits): they must pass under node
var c01FixedCorpus = []string{
	"x=(a??b)|c", "x=(a==null?b:a)|c", "(a,b|c)+f(1)", "(a,!(p&&q))&&f(1)", "a&&=(f(1),g(2))", "a||=(f(1),g(2))", "a??=(f(1),g(2))",
	"if(a&&=b){}", "x=a===null||a===null", "x=a===undefined||a===undefined", "x=a!==null&&a!==null", "x=(1)['a']", "x=a*'b'+'c'",
	"if(a){if(b)throw 1;else;}else f(1)", "x=''?1:2", "if(''){f(1)}else{g(2)}", "x=void(f(1)+1)", "if(f(1)+1){}",
	// second batch (found by the sweep outside the fragment)
	"function t(p=f(1)){}t()", "function t(p,q=1){p=2;return arguments[0]}f(t(1))", "{const{[f(1)]:d}=0}", "if(a){let{a:d=f(1)}=0}",
	"class C{static 0=f(1)}g(C[0])", "class C{static{if(f(1)){}}}", "function q(undefined){return undefined}f(q(1))",
	"x=\"\\\n\"?1:2", "x=!\"\\\n\"", "if(a in b){}", "x=void(a in b)", "function t(p){if((p||'')instanceof q){}}x=t(a)",
	"function t(p1){class C{static{let e=f(1);k(e,p1)}}}t(5)", "for(var i of[1]){const[]=[]}", "for(var i of[1]){function t(){}}f(typeof t)", "if(a){f(1)}else{async function t(){}}",
	"let x=2;if(a){throw 1}else{let x=3;h(x)}h(x)", "if(a)throw 1;else{let l=1}", "function t(){let x=2;if(a){return 1}else{let x=3;h(x)}h(x)}t()",
	"a=null;x=(a?.b)[c];f(x)", "a=o1;x=(a==null?undefined:a.b)();f(x)", "a=null;x=(a==null?undefined:a.b).c;f(x)", "(a==null?undefined:a.b).c=1", "{class C{static s=f(1)}}", "{let z=class{static s=f(1)}}", "{class C extends f(1){}}",
	"function t(){var {a}=o1;let z=1;var {n:[]}=o2}t()",
	"f(typeof z);if(a)throw 1;else{function z(){}}", "f(typeof z);if(a){function z(){}}else throw 1",
	"function t(undefined){function*u(){yield undefined}return[...u()]}f(t(1))", "function t(undefined){return function*(){yield undefined}}f([...t(1)()])",
	"false%(10<(1000?!12000:a))", "x=a<(1?!5:b);f(x)", "x=a<<(0?b:!\"s\")+1;f(x)",
	"x=a===null||a===undefined", "x=a==null?b:a", "x=a?true:false", "x=!a?b:c", "x=a?a:b", "x=(f(1),a)?a:g(2)",
}

func c01KnownAndCorpus(c *Ctx) error {
	st := c.R.StartStage("known+corpus", "replay of every open known finding (must still differ under node, else NOTE) and of the inputs of repaired defects (must agree under node), 8 (quick) / 32 (thorough) host-world seeds each")
	// all programs are minified first, then executed by node in one batch
	type job struct {
		src, out, fail string
		rename        bool
		known         *h.KnownEntry
		lo, hi        int // pairs[lo:hi]
	}
	var jobs []*job
	var pairs []c01Pair
	add := func(src string, rename bool, k *h.KnownEntry) {
		j := &job{src: src, rename: rename, known: k}
		o, merr, crash := c01Minify(src, 0, !rename)
		if crash != "" || merr != nil {
			j.fail = "minify failed: " + crash + fmt.Sprint(merr)
		} else {
			j.out = o
			j.lo = len(pairs)
			for k := 0; k < c.N(8, 32); k++ {
				pairs = append(pairs, c01Pair{ID: len(pairs), A: src, B: o, Seed: k})
			}
			j.hi = len(pairs)
		}
		jobs = append(jobs, j)
	}
	known := h.Known("C01")
	for i := range known {
		k := &known[i]
		if k.Status != "open" {
			continue
		}
		rename, _ := k.Replay["rename"].(bool)
		add(k.ReplayStr("src"), rename, k)
	}
	for _, k := range known {
		if k.Status == "fixed" {
			if src := k.ReplayStr("input"); src != "" {
				c01FixedCorpus = append(c01FixedCorpus, src)
			}
		}
	}
	for _, src := range c01FixedCorpus {
		for _, rename := range []bool{false, true} {
			add(src, rename, nil)
		}
	}
	res, err := c01NodeCompare(pairs)
	if err != nil {
		return err
	}
	for _, j := range jobs {
		differs, why := j.fail != "", j.fail
		for _, r := range res[j.lo:j.hi] {
			if !differs && r.Skip == "" && !r.Same {
				differs, why = true, r.Why
			}
		}
		if j.known != nil {
			st.Count("known "+j.known.ID+": "+j.src, true)
			c.R.AddKnown(j.known.ID, differs, j.known.What, j.out+" | "+why)
			continue
		}
		st.Count(fmt.Sprintf("corpus %s rename=%v", j.src, j.rename), j.out != j.src)
		if differs {
			c.R.Add(h.Finding{Stage: "known+corpus", Kind: "fail", What: "regression corpus: behaviour differs under node: " + c01DiffClass(why), Input: j.src, Config: fmt.Sprintf("version=0 keepVarNames=%v", !j.rename), Impl: j.out, Model: why})
		}
	}
	st.End()
	return nil
}

// spreading / enumerating `this` (the global object at top level): observes the creation order of global `var`s
var c01ReEnumThis = regexp.MustCompile(`\.\.\.\s*\(*\s*this\b|\b(in|of)\s+\(*\s*this\b|\b(keys|entries|values|assign|getOwnPropertyNames)\(\s*\(*\s*this\b|\}\s*=\s*\(*\s*this\b`)

func c01Sweep(c *Ctx) error {
	// forms under open known findings are not generated (the findings are replayed by c01KnownAndCorpus)
	for t := range c01OpenTriggers {
		c01SwAvoid[t] = true
	}
	n := c.N(700, 12000)
	progs := append(c01SweepFixed(), c01SweepPrograms(c.Rng.Fork(), n)...)
	var cases []*c01Case
	rejected := 0
	for _, src := range progs {
		if c01ReEnumThis.MatchString(src) {
			// enumerating the global object observes the creation order of global `var`s, which hoisting may change
			continue
		}
		for _, rename := range []bool{true, false} {
			out, err, crash := c01Minify(src, 0, !rename)
			if crash != "" {
				c.R.Add(h.Finding{Stage: "sweep-node", Kind: "crash", What: "js.Minify " + crash, Input: src})
				continue
			}
			if err != nil {
				rejected++
				continue
			}
			cases = append(cases, &c01Case{src: src, out: out, ver: 0, rename: rename, minified: true})
		}
	}
	if rejected > 0 {
		c.R.Note("sweep: js.Minify rejected %d of %d inputs (parser limitations; no output to judge)", rejected, 2*len(progs))
	}
	return c01NodeStage(c, "sweep-node", cases, false)
}

func init() {
	register("C01", func(c *Ctx) error {
		for _, k := range h.Known("C01") {
			if k.Status == "open" {
				for _, t := range strings.Split(k.Trigger, ",") {
					if t = strings.TrimSpace(t); t != "" {
						c01OpenTriggers[t] = true
					}
				}
			}
		}
		if os.Getenv("VERIF_C01_ONLY") == "rules" { // debugging aid: only the rule-directed stage
			return c01RulesStage(c)
		}
		// stage 1: exhaustive small expressions
		var cases []*c01Case
		forms := c01QuickForms
		maxN := 3
		if c.Thorough() {
			forms = c01AllForms()
		}
		seen := map[string]bool{}
		addExpr := func(e *c01E, tag string) {
			for _, wrap := range []int{0, 1} {
				var p c01Prog
				if wrap == 0 {
					p = c01Prog{{K: "E", E: c01B("=", c01V("x"), c01Wrap(e, int(pjs.OpAssign)))}}
				} else {
					if e.K == 'M' {
						continue // an expression statement that is a bare comma list is split/merged by the statement pass: covered by stage 3
					}
					p = c01Prog{{K: "E", E: e}}
				}
				src := p.Src()
				if seen[src] {
					continue
				}
				seen[src] = true
				cases = append(cases, &c01Case{prog: p, src: src, ver: 0, tag: tag})
			}
		}
		for n := 1; n <= maxN; n++ {
			fs := forms
			if c.Thorough() && n == 3 {
				fs = c01QuickForms // triples over one operator per level, pairs over every operator
			}
			c01Enum(fs, n, c.Thorough() && n <= 2, func(e *c01E) { addExpr(e, fmt.Sprintf("ops=%d", n)) })
		}
		if err := c01RunStage(c, "enum-expr", "all expression trees with ≤ 3 operator nodes (one operator per precedence level in the quick tier; all operators for ≤ 2 nodes in the thorough tier), minimal and fully parenthesised variants, as `x=e` and as statement `e`; non-trivial = output differs from the input with spaces removed", cases, true, c.N(1, 10)); err != nil {
			return err
		}
		// stage 2: random larger expressions, all versions
		g := &c01Gen{r: c.Rng.Fork(), forms: c01AllForms()}
		cases = nil
		nExpr := c.N(6000, 60000)
		for i := 0; i < nExpr; i++ {
			e := g.expr(2 + g.r.Intn(6))
			var p c01Prog
			if g.r.Chance(50) {
				p = c01Prog{{K: "E", E: c01B("=", c01V("x"), c01Wrap(e, int(pjs.OpAssign)))}}
			} else {
				p = c01Prog{{K: "E", E: e}}
			}
			cases = append(cases, &c01Case{prog: p, src: p.Src(), ver: c01Versions[g.r.Intn(len(c01Versions))]})
		}
		if err := c01RunStage(c, "random-expr", "seeded random expressions of 2–7 operator nodes biased towards conditional / negation / equality / nullish forms with repeated variables and literals, versions {0,2015,2019,2020,2022}", cases, false, c.N(40, 100)); err != nil {
			return err
		}
		// stage 3: statement lists
		cases = nil
		nProg := c.N(4000, 60000)
		for i := 0; i < nProg; i++ {
			p := g.prog()
			cases = append(cases, &c01Case{prog: p, src: p.Src(), ver: c01Versions[g.r.Intn(len(c01Versions))]})
		}
		if err := c01RunStage(c, "random-stmts", "seeded random statement lists (expression, if/else, return, throw, block, empty) at top level and in a function body", cases, false, c.N(60, 100)); err != nil {
			return err
		}
		if err := c01KnownAndCorpus(c); err != nil {
			return err
		}
		if err := c01Sweep(c); err != nil {
			return err
		}
		return c01RulesStage(c)
	})
}

package main

// C15 — media type dispatch.  Random registration histories × media type strings; the real registry is
// driven through Minify / MinifyMimetype / Match / Bytes / String with recording stub minifiers and
// compared (a) with the Lean model `Model.Registry` and (b) with the reference rule `specDispatch`.

import (
	"bytes"
	"errors"
	"fmt"
	"io"
	"os/exec"
	"regexp"
	"sort"
	"strconv"
	"strings"

	"github.com/tdewolff/minify/v2"
	"github.com/tdewolff/parse/v2"

	"verifharness/h"
)

var c15Pats = []string{`^text/`, `html$`, `.*`, `[/+]json$`, `^(application|text)/(x-)?javascript$`, `^$`, `x`, `^a`}
var c15Lits = []string{"text/html", "text/css", "text/*", "application/json", "a/b", "ab", "TEXT/HTML", "text/javascript", "", "a"}

type c15Op struct {
	lit  bool
	key  string // literal mimetype or pattern index
	pid  int
	id   int
	kind int // 0 Add, 1 AddFunc, 2 AddCmd (and the Regexp variants)
}

type c15Rec struct {
	id      int
	params  map[string]string
	nilPar  bool
	called  int
}

func c15GenQuery(r *h.RNG) string {
	if r.Chance(15) {
		// raw soup
		al := "a/;= *Tx+"
		n := r.Intn(10)
		b := make([]byte, n)
		for i := range b {
			b[i] = al[r.Intn(len(al))]
		}
		return string(b)
	}
	types := []string{"text/html", "text/css", "application/json", "a/b", "ab", "a", "TEXT/HTML", "text/javascript", "image/svg+xml", "application/ld+json", "text/*", "*/*", "te xt/html", "x", "application/x-javascript", "text/xml"}
	var sb strings.Builder
	sb.WriteString(strings.Repeat(" ", []int{0, 0, 0, 1, 2}[r.Intn(5)]))
	if r.Chance(5) {
		sb.WriteString("\t")
	}
	sb.WriteString(r.Pick(types))
	np := []int{0, 0, 1, 1, 2, 3}[r.Intn(6)]
	sp := func() {
		sb.WriteString(strings.Repeat(" ", []int{0, 0, 1, 2}[r.Intn(4)]))
	}
	if r.Chance(10) {
		sb.WriteString(" ")
		sb.WriteString(r.Pick([]string{"x", "=", "a=b", ""}))
	}
	keys := []string{"charset", "q", "version", "a", "", "k"}
	vals := []string{"utf-8", "UTF-8", "1", "", "\"a b\"", "x=y", "2.0"}
	for i := 0; i < np; i++ {
		sp()
		sb.WriteString(";")
		sp()
		sb.WriteString(r.Pick(keys))
		sp()
		if r.Chance(80) {
			sb.WriteString("=")
			sp()
			sb.WriteString(r.Pick(vals))
		}
	}
	if r.Chance(10) {
		sb.WriteString(r.Pick([]string{";", " ", " ;", "; "}))
	}
	return sb.String()
}

func c15Run(ops []c15Op, q string, withCmd bool) (want [][]byte, written bool, crash string) {
	rec := &c15Rec{id: -1}
	m := minify.New()
	res := [][]regexp.Regexp{}
	_ = res
	comp := make([]*regexp.Regexp, len(c15Pats))
	for i, p := range c15Pats {
		comp[i] = regexp.MustCompile(p)
	}
	mk := func(id int) minify.MinifierFunc {
		return func(_ *minify.M, w io.Writer, r io.Reader, params map[string]string) error {
			rec.id = id
			rec.called++
			rec.nilPar = params == nil
			rec.params = map[string]string{}
			for k, v := range params {
				rec.params[k] = v
			}
			return nil
		}
	}
	type wrap struct{ minify.MinifierFunc }
	for _, op := range ops {
		f := mk(op.id)
		switch {
		case op.lit && op.kind == 0:
			m.Add(op.key, wrap{f})
		case op.lit && op.kind == 1:
			m.AddFunc(op.key, f)
		case op.lit:
			m.AddCmd(op.key, exec.Command("/bin/echo", "-n", strconv.Itoa(op.id)))
		case op.kind == 0:
			m.AddRegexp(comp[op.pid], wrap{f})
		case op.kind == 1:
			m.AddFuncRegexp(comp[op.pid], f)
		default:
			m.AddCmdRegexp(comp[op.pid], exec.Command("/bin/echo", "-n", strconv.Itoa(op.id)))
		}
	}
	var fields [][]byte
	crash = h.Safely(10e9, func() {
		var w bytes.Buffer
		rd := strings.NewReader("input")
		err := m.Minify(q, &w, rd)
		minID := "none"
		var params map[string]string
		if err == nil {
			if rec.called == 1 {
				minID = strconv.Itoa(rec.id)
				params = rec.params
			} else if rec.called == 0 && w.Len() > 0 { // command minifier: echo printed its id
				minID = w.String()
				w.Reset()
				params = nil
			}
		} else if !errors.Is(err, minify.ErrNotExist) {
			minID = "error:" + err.Error()
		}
		if err != nil && (w.Len() > 0 || rd.Len() != 5) {
			written = true
		}
		cmdCall := rec.called == 0 && err == nil
		// Match
		rec.called = 0
		rec.id = -1
		name, mparams, mf := m.Match(q)
		mimetype, pparams := parse.Mediatype([]byte(q))
		mk := "N"
		mid := "none"
		if mf != nil {
			var w2 bytes.Buffer
			if e := mf(m, &w2, strings.NewReader(""), nil); e == nil {
				if rec.called == 1 {
					mid = strconv.Itoa(rec.id)
				} else {
					mid = w2.String()
				}
			}
			mk = "L"
			if name != string(mimetype) || !c15HasLit(ops, name) {
				mk = "P?"
				for i, p := range c15Pats {
					if p == name {
						mk = "P" + strconv.Itoa(i)
					}
				}
			}
		} else if name != string(mimetype) {
			mk = "N!" + name
		}
		same := "1"
		if !cmdCall && !c15MapEq(mparams, params) && minID != "none" {
			same = "0"
		}
		if !c15MapEq(mparams, pparams) {
			same = "0"
		}
		// the lower-level entry point and the convenience wrappers must select the same minifier
		for _, alt := range []string{"mimetype", "bytes", "string"} {
			rec.called, rec.id = 0, -1
			var e error
			var wrote string
			switch alt {
			case "mimetype":
				var w3 bytes.Buffer
				e = m.MinifyMimetype(mimetype, &w3, strings.NewReader("input"), pparams)
				wrote = w3.String()
			case "bytes":
				var o []byte
				o, e = m.Bytes(q, []byte("input"))
				if e == nil {
					wrote = string(o)
				}
			case "string":
				var o string
				o, e = m.String(q, "input")
				if e == nil {
					wrote = o
				}
			}
			got := "none"
			if e == nil {
				if rec.called == 1 {
					got = strconv.Itoa(rec.id)
				} else {
					got = wrote
				}
			} else if !errors.Is(e, minify.ErrNotExist) {
				got = "error:" + e.Error()
			}
			if got != minID {
				minID = fmt.Sprintf("%s(but %s gives %s)", minID, alt, got)
			}
		}
		fields = [][]byte{[]byte(minID), []byte(mk), []byte(mid), mimetype, []byte(same)}
		keys := make([]string, 0, len(mparams))
		for k := range mparams {
			keys = append(keys, k)
		}
		sort.Strings(keys)
		for _, k := range keys {
			fields = append(fields, []byte(k), []byte(mparams[k]))
		}
	})
	return fields, written, crash
}

func c15HasLit(ops []c15Op, name string) bool {
	for _, o := range ops {
		if o.lit && o.key == name {
			return true
		}
	}
	return false
}

func c15MapEq(a, b map[string]string) bool {
	if len(a) != len(b) {
		return false
	}
	for k, v := range a {
		if w, ok := b[k]; !ok || w != v {
			return false
		}
	}
	return true
}

func init() {
	register("C15", func(c *Ctx) error {
		nh := c.N(6000, 200000)
		st := c.R.StartStage("dispatch", "random registration histories (0-12 ops over 10 literal keys, 8 overlapping patterns, Add/AddFunc/AddCmd and Regexp variants, re-registrations) x generated media type strings (case, spaces, parameters, duplicates, wildcards, <3 bytes, raw soup); real registry driven through Minify, MinifyMimetype, Match, Bytes, String; non-trivial = history has >=2 ops and query selects a minifier or has parameters")
		type item struct {
			ops  []c15Op
			q    string
			want [][]byte
			line string
			key  string
		}
		var items []item
		comp := make([]*regexp.Regexp, len(c15Pats))
		for i, p := range c15Pats {
			comp[i] = regexp.MustCompile(p)
		}
		for i := 0; i < nh; i++ {
			r := c.Rng.Fork()
			n := r.Intn(13)
			ops := make([]c15Op, n)
			withCmd := r.Chance(3)
			for j := range ops {
				kind := r.Intn(2)
				if withCmd && r.Chance(30) {
					kind = 2
				}
				if r.Chance(55) {
					ops[j] = c15Op{lit: true, key: r.Pick(c15Lits), id: j + 1, kind: kind}
				} else {
					p := r.Intn(len(c15Pats))
					ops[j] = c15Op{pid: p, id: j + 1, kind: kind}
				}
			}
			nq := 3
			for k := 0; k < nq; k++ {
				q := c15GenQuery(r)
				if k == 0 && n > 0 && r.Chance(50) { // aim at a registered literal
					for _, o := range ops {
						if o.lit && len(o.key) > 0 {
							q = o.key + r.Pick([]string{"", ";q=1", " ; charset=utf-8", "  "})
							break
						}
					}
				}
				want, written, crash := c15Run(ops, q, withCmd)
				desc := fmt.Sprintf("history=%s query=%q", c15Desc(ops), q)
				if crash != "" {
					c.R.Add(h.Finding{Stage: st.Name, Kind: "crash", What: crash, Input: desc})
					continue
				}
				if written {
					c.R.Add(h.Finding{Stage: st.Name, Kind: "fail", What: "not-exist/err path wrote output or consumed input", Input: desc})
				}
				gs := make([][][]byte, len(ops))
				for j, o := range ops {
					if o.lit {
						gs[j] = [][]byte{[]byte("L"), []byte(o.key), []byte(strconv.Itoa(o.id))}
					} else {
						gs[j] = [][]byte{[]byte("P"), []byte(strconv.Itoa(o.pid)), []byte(strconv.Itoa(o.id))}
					}
				}
				for j := range gs { // an empty literal key must stay a 3-item group
					_ = j
				}
				mimetype, _ := parse.Mediatype([]byte(q))
				var bits []string
				for pi, re := range comp {
					if re.Match(mimetype) {
						bits = append(bits, strconv.Itoa(pi))
					}
				}
				line := "model.c15.query " + h.Groups(gs) + " " + h.HexS(q) + " " + h.ListS(bits)
				items = append(items, item{ops, q, want, line, desc})
			}
		}
		lines := make([]string, len(items))
		for i, it := range items {
			lines[i] = it.line
		}
		rep, err := h.Eval(lines)
		if err != nil {
			return err
		}
		for i, it := range items {
			nontriv := len(it.ops) >= 2 && (string(it.want[0]) != "none" || len(it.want) > 5)
			st.Count(it.key, nontriv)
			st.Tag("minify=" + map[bool]string{true: "none", false: "selected"}[string(it.want[0]) == "none"])
			st.Tag("match=" + string(it.want[1][:1]))
			b, ok, msg := h.DecodeReply(rep[i])
			if !ok {
				c.R.Add(h.Finding{Stage: st.Name, Kind: "diff", What: "model error: " + msg, Input: it.key})
				continue
			}
			got := h.DecodeListReply(b)
			if len(got) < 6 {
				c.R.Add(h.Finding{Stage: st.Name, Kind: "diff", What: "short model reply", Input: it.key})
				continue
			}
			spec := string(got[5])
			gotCmp := append([][]byte{}, got[:5]...)
			{ // Go maps are unordered: compare parameters sorted by key
				ps := got[6:]
				idx := make([]int, len(ps)/2)
				for j := range idx {
					idx[j] = j
				}
				sort.Slice(idx, func(a, b int) bool { return string(ps[2*idx[a]]) < string(ps[2*idx[b]]) })
				for _, j := range idx {
					gotCmp = append(gotCmp, ps[2*j], ps[2*j+1])
				}
			}
			// (b) the property itself on the implementation's behaviour: the reference rule
			if string(it.want[0]) != spec || string(it.want[2]) != spec {
				c.R.Add(h.Finding{Stage: st.Name, Kind: "fail", What: "dispatch differs from the documented rule (last literal, else first matching pattern, else not-exist)", Input: it.key,
					Impl: fmt.Sprintf("minify->%s match->%s", it.want[0], it.want[2]), Model: "rule->" + spec})
				continue
			}
			if string(it.want[4]) != "1" {
				c.R.Add(h.Finding{Stage: st.Name, Kind: "fail", What: "Match returns different parameters than the minifier receives", Input: it.key})
				continue
			}
			// (a) correspondence with the model
			if !c15EqLists(gotCmp, it.want) {
				c.R.Add(h.Finding{Stage: st.Name, Kind: "diff", What: "model.c15.query", Input: it.key, Impl: c15Show(it.want), Model: c15Show(gotCmp)})
			}
		}
		st.End()
		return nil
	})
}

func c15EqLists(a, b [][]byte) bool {
	if len(a) != len(b) {
		return false
	}
	for i := range a {
		if !bytes.Equal(a[i], b[i]) {
			return false
		}
	}
	return true
}
func c15Show(a [][]byte) string {
	s := make([]string, len(a))
	for i := range a {
		s[i] = string(a[i])
	}
	return strings.Join(s, "|")
}
func c15Desc(ops []c15Op) string {
	var p []string
	for _, o := range ops {
		if o.lit {
			p = append(p, fmt.Sprintf("Add%s(%q,#%d)", []string{"", "Func", "Cmd"}[o.kind], o.key, o.id))
		} else {
			p = append(p, fmt.Sprintf("Add%sRegexp(%q,#%d)", []string{"", "Func", "Cmd"}[o.kind], c15Pats[o.pid], o.id))
		}
	}
	return "[" + strings.Join(p, " ") + "]"
}

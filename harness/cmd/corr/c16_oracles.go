package main

// C16 — per-option oracles (independent of the Lean models) and input generators for stage "honoured".
// Every oracle looks only at the input document and the bytes the real minifier produced:
//   html: golang.org/x/net/html tokenizer + an own raw attribute scanner
//   json: encoding/json token stream;  svg/xml: encoding/xml token stream + regexps;  numbers: math/big
//   js/css: the dependency lexers for token classes only
// An oracle returns "" (holds), a description of the violation, or c16Skip (outside what it judges).

import (
	"bufio"
	"bytes"
	"encoding/json"
	"io"
	"os/exec"
	"path/filepath"
	"encoding/xml"
	"fmt"
	"math/big"
	"regexp"
	"sort"
	"strings"

	"github.com/tdewolff/parse/v2"
	pcss "github.com/tdewolff/parse/v2/css"
	pjs "github.com/tdewolff/parse/v2/js"
	xhtml "golang.org/x/net/html"

	"verifharness/h"
)

const c16Skip = "\x00skip"

// ---------- HTML scan ----------

type c16Attr struct {
	name, val string
	hasVal    bool
	quoted    bool
}

type c16Tag struct {
	name       string
	end        bool
	attrs      []c16Attr
	afterStart bool // end tag that directly follows its start tag (no text, no comment in between)
}

// c16Word is one non-white-space byte of the character data (tag and comment boundaries are transparent)
type c16Word struct {
	w  string
	ws int // 0 no white space since the previous byte, 1 white space, 2 not judged (first byte / after a barrier)
}

type c16Doc struct {
	comments []string // raw `<!--…-->` tokens outside foreign content
	tags     []c16Tag // start and end tags outside foreign content
	words    []c16Word
}

var c16RawText = map[string]bool{"script": true, "style": true, "textarea": true, "title": true, "iframe": true, "noembed": true, "noframes": true, "noscript": true, "plaintext": true, "xmp": true}

// c16RawAttrs scans the raw bytes of a start tag (`<name a=b c="d" e>`) the way the HTML tokenizer does, keeping the
// quoting of every attribute value.
func c16RawAttrs(raw []byte) []c16Attr {
	i := 1
	ws := func(c byte) bool { return c == ' ' || c == '\t' || c == '\n' || c == '\r' || c == '\f' }
	for i < len(raw) && !ws(raw[i]) && raw[i] != '>' && raw[i] != '/' {
		i++
	}
	var out []c16Attr
	for i < len(raw) {
		for i < len(raw) && (ws(raw[i]) || raw[i] == '/') {
			i++
		}
		if i >= len(raw) || raw[i] == '>' {
			break
		}
		st := i
		if raw[i] == '=' { // a leading `=` belongs to the name
			i++
		}
		for i < len(raw) && !ws(raw[i]) && raw[i] != '=' && raw[i] != '>' && raw[i] != '/' {
			i++
		}
		a := c16Attr{name: strings.ToLower(string(raw[st:i]))}
		for i < len(raw) && ws(raw[i]) {
			i++
		}
		if i < len(raw) && raw[i] == '=' {
			i++
			for i < len(raw) && ws(raw[i]) {
				i++
			}
			a.hasVal = true
			if i < len(raw) && (raw[i] == '"' || raw[i] == '\'') {
				q := raw[i]
				i++
				st = i
				for i < len(raw) && raw[i] != q {
					i++
				}
				a.val, a.quoted = string(raw[st:i]), true
				i++
			} else {
				st = i
				for i < len(raw) && !ws(raw[i]) && raw[i] != '>' {
					i++
				}
				a.val = string(raw[st:i])
			}
		}
		out = append(out, a)
	}
	return out
}

func c16ScanHTML(b []byte) c16Doc {
	var d c16Doc
	z := xhtml.NewTokenizer(bytes.NewReader(b))
	foreign, pre, sel := 0, 0, 0
	raw := ""
	pending, barrier := false, true
	lastStart := "" // name of the start tag that was the previous token
	isWS := func(c byte) bool { return c == ' ' || c == '\t' || c == '\n' || c == '\r' || c == '\f' }
	for {
		tt := z.Next()
		if tt == xhtml.ErrorToken {
			break
		}
		prevStart := lastStart
		lastStart = ""
		switch tt {
		case xhtml.StartTagToken, xhtml.EndTagToken, xhtml.SelfClosingTagToken:
			rawTok := append([]byte(nil), z.Raw()...)
			n, _ := z.TagName()
			name := string(n)
			if tt == xhtml.StartTagToken {
				lastStart = name
			}
			if name == "svg" || name == "math" {
				if tt == xhtml.StartTagToken {
					foreign++
				} else if tt == xhtml.EndTagToken && foreign > 0 {
					foreign--
				}
				barrier = true
				continue
			}
			if foreign > 0 {
				continue
			}
			t := c16Tag{name: name, end: tt == xhtml.EndTagToken, afterStart: tt == xhtml.EndTagToken && prevStart == name}
			if !t.end {
				t.attrs = c16RawAttrs(rawTok)
			}
			d.tags = append(d.tags, t)
			if tt == xhtml.StartTagToken && c16RawText[name] {
				raw = name
			}
			if t.end && name == raw {
				raw = ""
				barrier = true
			}
			if name == "pre" || name == "listing" {
				if tt == xhtml.StartTagToken {
					pre++
				} else if t.end && pre > 0 {
					pre--
				}
				barrier = true
			}
			if name == "select" || name == "optgroup" || name == "option" || name == "datalist" {
				if name == "select" {
					if tt == xhtml.StartTagToken {
						sel++
					} else if t.end && sel > 0 {
						sel--
					}
				}
				barrier = true
			}
		case xhtml.CommentToken:
			if foreign == 0 && bytes.HasPrefix(z.Raw(), []byte("<!--")) {
				d.comments = append(d.comments, string(z.Raw()))
			}
		case xhtml.DoctypeToken:
		case xhtml.TextToken:
			if foreign > 0 {
				continue
			}
			if raw != "" || pre > 0 || sel > 0 {
				barrier = true
				continue
			}
			for _, ch := range z.Text() {
				if isWS(ch) {
					pending = true
					continue
				}
				w := c16Word{w: string(ch)}
				if barrier {
					w.ws = 2
				} else if pending {
					w.ws = 1
				}
				d.words = append(d.words, w)
				pending, barrier = false, false
			}
		}
	}
	return d
}

// c16NoCommentForm is the token stream of a document as a parser sees it once comments are ignored: start/end tags and
// the doctype as raw bytes, character data concatenated across comments; one newline directly behind a
// <pre>/<textarea>/<listing> start tag is dropped (HTML parser rule) — but not when a comment stands in between.
func c16NoCommentForm(b []byte) []string {
	var out []string
	z := xhtml.NewTokenizer(bytes.NewReader(b))
	text := ""
	flush := func() {
		if text != "" {
			out = append(out, "T:"+text)
			text = ""
		}
	}
	dropNL := false
	for {
		tt := z.Next()
		if tt == xhtml.ErrorToken {
			break
		}
		switch tt {
		case xhtml.CommentToken:
			if bytes.HasPrefix(z.Raw(), []byte("<!--")) {
				dropNL = false
				continue
			}
			flush()
			out = append(out, string(z.Raw()))
		case xhtml.TextToken:
			t := string(z.Text())
			if dropNL && strings.HasPrefix(t, "\n") {
				t = t[1:]
			}
			text += t
		default:
			flush()
			raw := string(z.Raw())
			out = append(out, raw)
			if tt == xhtml.StartTagToken {
				n, _ := z.TagName()
				if name := string(n); name == "pre" || name == "textarea" || name == "listing" {
					dropNL = true
					continue
				}
			}
		}
		dropNL = false
	}
	flush()
	return out
}

// c16OracleNothingElse: the comment options do nothing but keep comments — the output with the option(s) and the output
// without them (all other options equal) are the same document once comments are ignored
func c16OracleNothingElse(on, off []byte) string {
	a, b := c16NoCommentForm(on), c16NoCommentForm(off)
	for i := 0; i < len(a) || i < len(b); i++ {
		x, y := "<end>", "<end>"
		if i < len(a) {
			x = a[i]
		}
		if i < len(b) {
			y = b[i]
		}
		if x != y {
			return fmt.Sprintf("apart from comments the outputs differ at item %d: with the option %q, without %q", i, x, y)
		}
	}
	return ""
}

// c16PreTexts: the character data of every pre/textarea/listing element as the parser delivers it (comments ignored, the
// newline directly behind the start tag dropped)
func c16PreTexts(b []byte) []string {
	var out []string
	items := c16NoCommentForm(b)
	depth, cur := 0, ""
	for _, it := range items {
		switch {
		case strings.HasPrefix(it, "T:"):
			if depth > 0 {
				cur += it[2:]
			}
		case strings.HasPrefix(it, "</"):
			n := strings.ToLower(strings.TrimRight(strings.TrimSpace(it[2:]), "> \t\n"))
			if (n == "pre" || n == "textarea" || n == "listing") && depth > 0 {
				depth--
				if depth == 0 {
					out = append(out, cur)
					cur = ""
				}
			}
		case strings.HasPrefix(it, "<"):
			n := strings.ToLower(it[1:])
			for _, t := range []string{"pre", "textarea", "listing"} {
				if strings.HasPrefix(n, t) && len(n) > len(t) && strings.ContainsAny(n[len(t):len(t)+1], " \t\n/>") {
					depth++
				}
			}
		}
	}
	if depth > 0 {
		out = append(out, cur)
	}
	return out
}

// preformatted text is never touched, whatever the options
func c16OraclePreText(in, out []byte) string {
	a, b := c16PreTexts(in), c16PreTexts(out)
	if len(a) != len(b) {
		return c16Skip
	}
	for i := range a {
		if a[i] != b[i] {
			return fmt.Sprintf("text of preformatted element %d: %q in the input, %q in the output", i, a[i], b[i])
		}
	}
	return ""
}

// ---------- HTML oracles ----------

func c16IsSpecialComment(raw string) (special, ssi, complete bool) {
	if !strings.HasPrefix(raw, "<!--") || !strings.HasSuffix(raw, "-->") || len(raw) < 7 {
		return
	}
	text := raw[4 : len(raw)-3]
	special = 6 < len(text) && (strings.HasPrefix(text, "[if ") || strings.HasSuffix(text, "[endif]") || strings.HasSuffix(text, "[endif]--"))
	ssi = !special && 1 < len(text) && text[0] == '#'
	complete = special && strings.HasPrefix(raw, "<!--[if ") && strings.HasSuffix(raw, "<![endif]-->")
	return
}

func c16OracleKeepComments(in, out c16Doc) string {
	if strings.Join(in.comments, "\x00") != strings.Join(out.comments, "\x00") {
		return fmt.Sprintf("comments of the input %q, of the output %q", in.comments, out.comments)
	}
	return ""
}

// special comments: SSI and incomplete conditional comments byte for byte; complete `<!--[if …]>…<![endif]-->` with
// the opener kept (the inside is minified as HTML)
func c16OracleKeepSpecial(in, out c16Doc, keepAll bool) string {
	pick := func(d c16Doc) []string {
		var r []string
		for _, c := range d.comments {
			sp, ssi, complete := c16IsSpecialComment(c)
			switch {
			case complete && !keepAll:
				r = append(r, c[:strings.IndexByte(c, '>')+1]+"…<![endif]-->")
			case sp || ssi:
				r = append(r, c)
			}
		}
		return r
	}
	a, b := pick(in), pick(out)
	if strings.Join(a, "\x00") != strings.Join(b, "\x00") {
		return fmt.Sprintf("special comments of the input %q, of the output %q", a, b)
	}
	return ""
}

var c16DocTags = map[string]bool{"html": true, "head": true, "body": true}

// end tags: the sequence of end tag names of the input and of the output agree.  Not counted: the end tag of an
// attribute-less empty script/style element (removed as a whole element) and — known finding K-C16-1 while open —
// html/head/body (unless KeepDocumentTags) and colgroup end tags.
func c16OracleKeepEndTags(in, out c16Doc, keepDoc, k1open bool) (string, bool) {
	excluded := false
	seq := func(d c16Doc, isInput bool) []string {
		var r []string
		written := map[string]int{}
		for i, t := range d.tags {
			pairTag := t.name == "colgroup" || (!keepDoc && c16DocTags[t.name])
			if !t.end {
				if pairTag && len(t.attrs) > 0 {
					written[t.name]++
				}
				continue
			}
			if isInput && i > 0 && t.afterStart && (t.name == "script" || t.name == "style") && !d.tags[i-1].end && d.tags[i-1].name == t.name && len(d.tags[i-1].attrs) == 0 {
				continue
			}
			if pairTag {
				if written[t.name] > 0 {
					written[t.name]--
					if k1open {
						if isInput {
							excluded = true
						}
						continue
					}
					r = append(r, t.name)
				}
				continue // start tag not written (or unknown: attribute-less body before a head-bound element): not judged
			}
			r = append(r, t.name)
		}
		return r
	}
	a, b := seq(in, true), seq(out, false)
	if strings.Join(a, " ") != strings.Join(b, " ") {
		return fmt.Sprintf("end tags of the input [%s], of the output [%s]", strings.Join(a, " "), strings.Join(b, " ")), excluded
	}
	return "", excluded
}

func c16OracleKeepDocumentTags(in, out c16Doc) string {
	cnt := func(d c16Doc) string {
		m := map[string]int{}
		for _, t := range d.tags {
			if c16DocTags[t.name] {
				k := "<" + t.name + ">"
				if t.end {
					k = "</" + t.name + ">"
				}
				m[k]++
			}
		}
		var ks []string
		for k, v := range m {
			ks = append(ks, fmt.Sprintf("%s×%d", k, v))
		}
		sort.Strings(ks)
		return strings.Join(ks, " ")
	}
	if a, b := cnt(in), cnt(out); a != b {
		return fmt.Sprintf("document tags of the input {%s}, of the output {%s}", a, b)
	}
	return ""
}

// quotes: an attribute value that is unquoted in the output was unquoted in the input (per element name and attribute name)
// K-C16-4 (while open): event-handler attributes are not judged.
func c16OracleKeepQuotes(in, out c16Doc, k4open bool) (string, bool) {
	excluded := false
	cnt := func(d c16Doc, isInput bool) map[string]int {
		m := map[string]int{}
		for _, t := range d.tags {
			for _, a := range t.attrs {
				if k4open && strings.HasPrefix(a.name, "on") && len(a.name) > 2 {
					if isInput && a.quoted {
						excluded = true
					}
					continue
				}
				if a.hasVal && !a.quoted && a.val != "" {
					m[t.name+" "+a.name]++
				}
			}
		}
		return m
	}
	a, b := cnt(in, true), cnt(out, false)
	var ks []string
	for k := range b {
		ks = append(ks, k)
	}
	sort.Strings(ks)
	for _, k := range ks {
		// `meta content` may be rewritten to `charset`
		if b[k] > a[k] && !(k == "meta charset" && b[k] <= a[k]+a["meta content"]) {
			return fmt.Sprintf("attribute `%s`: %d unquoted values in the output, %d in the input", k, b[k], a[k]), excluded
		}
	}
	return "", excluded
}

var c16DefaultPairs = []string{"script type=text/javascript", "script type=application/javascript", "form method=get", "input type=text", "style type=text/css",
	"link type=text/css", "button type=submit", "form enctype=application/x-www-form-urlencoded", "area shape=rect", "style media=all",
	"td colspan=1", "td rowspan=1", "col span=1"}

// default attribute values: every attribute of the input (per element name and attribute name) is still there, except
// for the reasons that have nothing to do with defaults; the values of the well-known defaults are unchanged.
// K-C16-2 (while open): `value` of an `input` with a `type` is not judged.
func c16OracleKeepDefaults(in, out c16Doc, k2open bool) (string, bool) {
	excluded := false
	cnt := func(d c16Doc, isInput bool) (map[string]int, map[string]int) {
		m, pairs := map[string]int{}, map[string]int{}
		for _, t := range d.tags {
			if t.end || t.name == "meta" {
				continue
			}
			names := map[string]int{}
			for _, a := range t.attrs {
				names[a.name]++
			}
			dup := false
			for _, n := range names {
				dup = dup || n > 1
			}
			if dup {
				continue
			}
			for _, a := range t.attrs {
				switch {
				case a.name == "style" || strings.HasPrefix(a.name, "on"):
					continue
				case strings.TrimSpace(xhtml.UnescapeString(a.val)) == "" && (a.name == "class" || a.name == "dir" || a.name == "id" || a.name == "name" || a.name == "action"):
					continue
				case t.name == "script" && a.name == "charset" && names["src"] > 0:
					continue
				case t.name == "a" && a.name == "name" && names["id"] > 0:
					continue
				case t.name == "input" && a.name == "value" && names["type"] > 0:
					if k2open {
						if isInput {
							excluded = true
						}
						continue
					}
				}
				m[t.name+" "+a.name]++
				pairs[t.name+" "+a.name+"="+strings.ToLower(strings.TrimSpace(a.val))]++
			}
		}
		return m, pairs
	}
	a, ap := cnt(in, true)
	b, bp := cnt(out, false)
	var ks []string
	for k := range a {
		ks = append(ks, k)
	}
	sort.Strings(ks)
	for _, k := range ks {
		if b[k] < a[k] {
			return fmt.Sprintf("attribute `%s`: %d in the input, %d in the output", k, a[k], b[k]), excluded
		}
	}
	for _, p := range c16DefaultPairs {
		if bp[p] < ap[p] {
			return fmt.Sprintf("default value `%s`: %d in the input, %d in the output", p, ap[p], bp[p]), excluded
		}
	}
	return "", excluded
}

// white space: the words of the document (outside pre, raw text, select, foreign content) and whether white space
// separates consecutive words agree
func c16OracleKeepWhitespace(in, out c16Doc) string {
	ctx := func(ws []c16Word, i int) string {
		var b strings.Builder
		for j := i - 12; j < i+8; j++ {
			if j >= 0 && j < len(ws) {
				if ws[j].ws == 1 {
					b.WriteByte(' ')
				} else if ws[j].ws == 2 {
					b.WriteByte('|')
				}
				b.WriteString(ws[j].w)
			}
		}
		return b.String()
	}
	if len(in.words) != len(out.words) {
		i := 0
		for i < len(in.words) && i < len(out.words) && in.words[i].w == out.words[i].w {
			i++
		}
		return fmt.Sprintf("%d text bytes in the input, %d in the output; first difference at %d: input …%s…, output …%s…", len(in.words), len(out.words), i, ctx(in.words, i), ctx(out.words, i))
	}
	for i := range in.words {
		a, b := in.words[i], out.words[i]
		if a.w != b.w {
			return fmt.Sprintf("text byte %d: input …%s…, output …%s…", i, ctx(in.words, i), ctx(out.words, i))
		}
		if a.ws != 2 && b.ws != 2 && a.ws != b.ws {
			return fmt.Sprintf("white space before text byte %d: in the input %v, in the output %v: input …%s…, output …%s…", i, a.ws == 1, b.ws == 1, ctx(in.words, i), ctx(out.words, i))
		}
	}
	return ""
}

// template expressions appear byte for byte and in order
func c16OracleTemplates(in, out []byte, open, close string) string {
	re := regexp.MustCompile(regexp.QuoteMeta(open) + `[^<>]*?` + regexp.QuoteMeta(close))
	pos := 0
	for _, e := range re.FindAll(in, -1) {
		i := bytes.Index(out[pos:], e)
		if i < 0 {
			return fmt.Sprintf("template expression %q of the input is not in the output (after offset %d)", e, pos)
		}
		pos += i + len(e)
	}
	return ""
}

// ---------- numbers ----------

var c16NumRe = regexp.MustCompile(`^[+-]?([0-9]+\.?[0-9]*|\.[0-9]+)([eE][+-]?[0-9]+)?$`)

func c16Rat(s string) (*big.Rat, bool) {
	if !c16NumRe.MatchString(s) {
		return nil, false
	}
	mant, exp := s, 0
	if i := strings.IndexAny(s, "eE"); i >= 0 {
		mant = s[:i]
		if _, err := fmt.Sscanf(s[i+1:], "%d", &exp); err != nil || exp > 400 || exp < -400 {
			return nil, false
		}
	}
	r, ok := new(big.Rat).SetString(mant)
	if !ok {
		return nil, false
	}
	p := new(big.Rat).SetInt(new(big.Int).Exp(big.NewInt(10), big.NewInt(int64(abs(exp))), nil))
	if exp < 0 {
		r.Quo(r, p)
	} else {
		r.Mul(r, p)
	}
	return r, true
}

func abs(i int) int {
	if i < 0 {
		return -i
	}
	return i
}

// c16NumOK: is `out` an acceptable rendering of the lexeme `in` at precision p?  p <= 0: the same rational;
// p > 0: within half a unit of the p-th significant digit (10^L <= |v| < 10^(L+1): |w-v| <= 10^(L-p+1)/2).
func c16NumOK(in, out string, p int) (bool, bool) {
	v, ok1 := c16Rat(in)
	w, ok2 := c16Rat(out)
	if !ok1 || !ok2 {
		return false, false
	}
	if v.Cmp(w) == 0 {
		return true, true
	}
	if p <= 0 || v.Sign() == 0 {
		return false, true
	}
	av := new(big.Rat).Abs(v)
	L := 0
	ten := big.NewRat(10, 1)
	one := big.NewRat(1, 1)
	for t := new(big.Rat).Set(av); t.Cmp(ten) >= 0; t.Quo(t, ten) {
		L++
	}
	for t := new(big.Rat).Set(av); t.Cmp(one) < 0; t.Mul(t, ten) {
		L--
	}
	e := L - p + 1
	bound := big.NewRat(1, 2)
	pw := new(big.Rat).SetInt(new(big.Int).Exp(big.NewInt(10), big.NewInt(int64(abs(e))), nil))
	if e < 0 {
		bound.Quo(bound, pw)
	} else {
		bound.Mul(bound, pw)
	}
	diff := new(big.Rat).Sub(w, v)
	diff.Abs(diff)
	return diff.Cmp(bound) <= 0, true
}

// c16OracleNumbers compares two aligned lists of number lexemes
func c16OracleNumbers(a, b []string, p int) string {
	if len(a) != len(b) {
		return c16Skip
	}
	judged := 0
	for i := range a {
		ok, j := c16NumOK(a[i], b[i], p)
		if !j {
			continue
		}
		judged++
		if !ok {
			return fmt.Sprintf("number %d: %s written as %s at precision %d", i, a[i], b[i], p)
		}
	}
	if judged == 0 {
		return c16Skip
	}
	return ""
}

// ---------- CSS ----------

func c16CSSNumbers(b []byte) (nums []string, hasExp bool, initial int) {
	l := pcss.NewLexer(parse.NewInputBytes(append([]byte(nil), b...)))
	for {
		tt, data := l.Next()
		if tt == pcss.ErrorToken {
			break
		}
		switch tt {
		case pcss.NumberToken, pcss.PercentageToken, pcss.DimensionToken:
			n := 0
			for n < len(data) && (data[n] == '+' || data[n] == '-' || data[n] == '.' || data[n] >= '0' && data[n] <= '9') {
				n++
			}
			if n < len(data) && (data[n] == 'e' || data[n] == 'E') { // exponent only if digits follow
				m := n + 1
				if m < len(data) && (data[m] == '+' || data[m] == '-') {
					m++
				}
				if m < len(data) && data[m] >= '0' && data[m] <= '9' {
					for m < len(data) && data[m] >= '0' && data[m] <= '9' {
						m++
					}
					n = m
					hasExp = true
				}
			}
			nums = append(nums, string(data[:n]))
		case pcss.IdentToken:
			if strings.EqualFold(string(data), "initial") {
				initial++
			}
		}
	}
	return
}

// ---------- JS ----------

type c16JSInfo struct {
	strs   map[string]bool
	idents                                               map[string]bool
	nums                                                 []string
	exp, nullish, optchain, template, catch0, shorthand bool
}

func c16ScanJS(b []byte) c16JSInfo {
	f := c16JSInfo{idents: map[string]bool{}, strs: map[string]bool{}}
	l := pjs.NewLexer(parse.NewInputBytes(append([]byte(nil), b...)))
	type tok struct {
		tt   pjs.TokenType
		data string
	}
	var toks []tok
	for {
		tt, data := l.Next()
		if tt == pjs.ErrorToken {
			break
		}
		if tt == pjs.WhitespaceToken || tt == pjs.LineTerminatorToken || tt == pjs.CommentToken || tt == pjs.CommentLineTerminatorToken {
			continue
		}
		// the lexer needs to be told when a `/` or a `}` continues a regular expression / template: approximate with the
		// standard re-lex rule (after an operator or an opening bracket a `/` starts a regular expression)
		if tt == pjs.DivToken || tt == pjs.DivEqToken {
			prev := pjs.ErrorToken
			if len(toks) > 0 {
				prev = toks[len(toks)-1].tt
			}
			if !(prev == pjs.IdentifierToken || prev == pjs.CloseParenToken || prev == pjs.CloseBracketToken || prev == pjs.CloseBraceToken || pjs.IsNumeric(prev) || prev == pjs.StringToken || prev == pjs.TemplateToken || prev == pjs.TemplateEndToken || prev == pjs.ThisToken || prev == pjs.TrueToken || prev == pjs.FalseToken || prev == pjs.NullToken) {
				tt, data = l.RegExp()
			}
		}
		toks = append(toks, tok{tt, string(data)})
	}
	var braces []bool // is the open brace an object literal?
	depth, declDepth := 0, -1 // nesting of ( [ {; nesting at which a var/let/const declaration list is open (-1: none)
	for i, t := range toks {
		switch t.tt {
		case pjs.VarToken, pjs.LetToken, pjs.ConstToken:
			declDepth = depth
		case pjs.SemicolonToken:
			if depth == declDepth {
				declDepth = -1
			}
		case pjs.OpenParenToken, pjs.OpenBracketToken:
			depth++
		case pjs.CloseParenToken, pjs.CloseBracketToken, pjs.CloseBraceToken:
			depth--
			if depth < declDepth {
				declDepth = -1
			}
		}
		prev, next := tok{}, tok{}
		if i > 0 {
			prev = toks[i-1]
		}
		if i+1 < len(toks) {
			next = toks[i+1]
		}
		switch t.tt {
		case pjs.StringToken:
			if len(t.data) >= 2 { // `o["a"]` may be written `o.a`, `{"a":1}` as `{a:1}`
				f.strs[t.data[1:len(t.data)-1]] = true
			}
		case pjs.IdentifierToken:
			f.idents[t.data] = true
			if len(braces) > 0 && braces[len(braces)-1] && (prev.tt == pjs.OpenBraceToken || prev.tt == pjs.CommaToken) && (next.tt == pjs.CommaToken || next.tt == pjs.CloseBraceToken) {
				f.shorthand = true
			}
		case pjs.DecimalToken, pjs.IntegerToken:
			if !strings.HasSuffix(t.data, "n") && !strings.Contains(t.data, "_") {
				f.nums = append(f.nums, t.data)
			}
		case pjs.ExpToken, pjs.ExpEqToken:
			f.exp = true
		case pjs.NullishToken, pjs.NullishEqToken:
			f.nullish = true
		case pjs.OptChainToken:
			f.optchain = true
		case pjs.TemplateToken, pjs.TemplateStartToken:
			f.template = true
		case pjs.OpenBraceToken:
			if prev.tt == pjs.CatchToken {
				f.catch0 = true
			}
			lit := false
			switch prev.tt {
			case pjs.EqToken, pjs.OpenParenToken, pjs.CommaToken, pjs.ColonToken, pjs.OpenBracketToken, pjs.QuestionToken, pjs.ReturnToken,
				pjs.AndToken, pjs.OrToken, pjs.NullishToken, pjs.AddToken:
				lit = true
			}
			if prev.tt == pjs.CommaToken && depth == declDepth {
				lit = false // `var a=1,{b}=o`: the next binding pattern of a declaration list
			}
			depth++
			braces = append(braces, lit)
		case pjs.CloseBraceToken:
			if len(braces) > 0 {
				braces = braces[:len(braces)-1]
			}
		}
	}
	return f
}

type c16Feature struct {
	name      string
	since     int
	in, out   bool
	knownOpen bool
}

// c16OracleVersion: the output uses no syntax newer than the target unless the input did
func c16OracleVersion(in, out c16JSInfo, ver int, k3open bool) (string, bool) {
	excluded := false
	for _, ft := range []c16Feature{{"template literal", 2015, in.template, out.template, false}, {"property shorthand", 2015, in.shorthand, out.shorthand, k3open},
		{"**", 2016, in.exp, out.exp, false}, {"optional catch binding", 2019, in.catch0, out.catch0, false}, {"??", 2020, in.nullish, out.nullish, false},
		{"?.", 2020, in.optchain, out.optchain, false}} {
		if ver != 0 && ver < ft.since && ft.out && !ft.in {
			if ft.knownOpen {
				excluded = true
				continue
			}
			return fmt.Sprintf("Version=%d: the output uses %s (ES%d), the input does not", ver, ft.name, ft.since), excluded
		}
	}
	return "", excluded
}

func c16OracleKeepVarNames(in, out c16JSInfo) string {
	var bad []string
	for id := range out.idents {
		if !in.idents[id] && !in.strs[id] {
			bad = append(bad, id)
		}
	}
	sort.Strings(bad)
	if len(bad) > 0 {
		return fmt.Sprintf("identifiers of the output that do not occur in the input: %v", bad)
	}
	return ""
}

// ---------- V8 syntax check (tools/jscheck.mjs: parse only, nothing is executed) ----------

type c16Node struct {
	cmd *exec.Cmd
	in  io.WriteCloser
	out *bufio.Scanner
}

func c16StartNode() (*c16Node, error) {
	cmd := exec.Command("node", "--experimental-vm-modules", "--no-warnings", filepath.Join(h.Root(), "tools", "jscheck.mjs"))
	in, err := cmd.StdinPipe()
	if err != nil {
		return nil, err
	}
	outp, err := cmd.StdoutPipe()
	if err != nil {
		return nil, err
	}
	if err := cmd.Start(); err != nil {
		return nil, err
	}
	sc := bufio.NewScanner(outp)
	sc.Buffer(make([]byte, 1<<20), 1<<28)
	return &c16Node{cmd, in, sc}, nil
}

func (j *c16Node) stop() {
	j.in.Close()
	j.cmd.Wait()
}

// parses: (ok, error message, judged)
func (j *c16Node) parses(src []byte) (bool, string, bool) {
	req, _ := json.Marshal(map[string]any{"id": 1, "src": string(src)})
	if _, err := j.in.Write(append(req, '\n')); err != nil || !j.out.Scan() {
		return true, "", false
	}
	var r struct {
		Ok  bool
		Err string
	}
	if json.Unmarshal(j.out.Bytes(), &r) != nil {
		return true, "", false
	}
	return r.Ok, r.Err, true
}

// trigger of K-C16-5: a function declaration directly in a block (not a function body) next to a `var` declaration of
// that block — the shapes `{function f(){}var …}` / `{var …;function f(){}}`
var c16BlockFnRe = regexp.MustCompile(`\{function \w+\(\)\{\}var |\{var [^;{}]*;function \w+\(\)\{\}\}`)

func c16TrigBlockFn(doc []byte) bool { return c16BlockFnRe.Match(doc) }

// ---------- SVG / XML ----------

var c16SVGNumAttrs = map[string]bool{"x": true, "y": true, "width": true, "height": true, "cx": true, "cy": true, "r": true, "rx": true, "ry": true, "x1": true, "y1": true, "x2": true, "y2": true, "stroke-width": true, "opacity": true}

var c16NumPrefix = regexp.MustCompile(`^[+-]?([0-9]+\.?[0-9]*|\.[0-9]+)([eE][+-]?[0-9]+)?`)

// comments and numeric attribute lexemes (element path + attribute name, number without its unit)
func c16ScanXML(b []byte) (comments []string, nums map[string]string, ok bool) {
	comments, nums, _, ok = c16ScanXMLn(b)
	return
}

// numeric attributes are keyed by the element's id attribute if it has one (`id:…@attr`), else by its path and ordinal
// (`path#n@attr`, comparable only when no element was removed); elems = number of elements
func c16ScanXMLn(b []byte) (comments []string, nums map[string]string, elems int, ok bool) {
	d := xml.NewDecoder(bytes.NewReader(b))
	d.Strict = false
	nums = map[string]string{}
	var path []string
	idx := 0
	for {
		t, err := d.Token()
		if err != nil {
			return comments, nums, idx, err.Error() == "EOF"
		}
		switch e := t.(type) {
		case xml.Comment:
			comments = append(comments, string(e))
		case xml.StartElement:
			idx++
			path = append(path, e.Name.Local)
			key := fmt.Sprintf("%s#%d", strings.Join(path, "/"), idx)
			for _, a := range e.Attr {
				if a.Name.Local == "id" && a.Name.Space == "" {
					key = "id:" + a.Value
				}
			}
			for _, a := range e.Attr {
				if c16SVGNumAttrs[a.Name.Local] && a.Name.Space == "" {
					v := strings.TrimSpace(a.Value)
					if m := c16NumPrefix.FindString(v); m != "" {
						unit := v[len(m):]
						if (unit == "e" || unit == "E") || (len(unit) > 0 && (unit[0] == 'e' || unit[0] == 'E')) {
							continue // `1em`, `1e`: where the number ends depends on the reader
						}
						nums[key+"@"+a.Name.Local] = m
					}
				}
			}
		case xml.EndElement:
			if len(path) > 0 {
				path = path[:len(path)-1]
			}
		}
	}
}

func c16OracleSVGPrecision(in, out []byte, p int) string {
	_, a, na, ok1 := c16ScanXMLn(in)
	_, b, nb, ok2 := c16ScanXMLn(out)
	if !ok1 || !ok2 || len(a) == 0 {
		return c16Skip
	}
	var ks []string
	for k := range a {
		ks = append(ks, k)
	}
	sort.Strings(ks)
	judged := 0
	for _, k := range ks {
		w, ok := b[k]
		if !ok || (na != nb && !strings.HasPrefix(k, "id:")) {
			continue // attribute dropped or elements removed (metadata, default values): other properties
		}
		okv, j := c16NumOK(a[k], w, p)
		if !j {
			continue
		}
		judged++
		if !okv {
			return fmt.Sprintf("attribute %s: %s written as %s at precision %d", k, a[k], w, p)
		}
	}
	if judged == 0 {
		return c16Skip
	}
	return ""
}

func c16OracleSVGComments(in, out []byte) string {
	a, _, ok1 := c16ScanXML(in)
	b, _, ok2 := c16ScanXML(out)
	if !ok1 || !ok2 {
		return c16Skip
	}
	if strings.Join(a, "\x00") != strings.Join(b, "\x00") {
		return fmt.Sprintf("comments of the input %q, of the output %q", a, b)
	}
	return ""
}

// ---------- self test of the oracles (negative inputs) ----------

// c16SelfTest feeds every oracle an output that violates its option and one that honours it; an oracle that does not
// tell them apart is a defect of the check, reported as an error of the runner.
func c16SelfTest() error {
	type tc struct {
		name string
		bad  func() string
		good func() string
	}
	H := func(s string) c16Doc { return c16ScanHTML([]byte(s)) }
	first := func(s string, _ bool) string { return s }
	tests := []tc{
		{"KeepComments", func() string { return c16OracleKeepComments(H("<p><!-- a -->x"), H("<p>x")) }, func() string { return c16OracleKeepComments(H("<p><!-- a -->x"), H("<p><!-- a -->x")) }},
		{"KeepComments/changed", func() string { return c16OracleKeepComments(H("<p><!-- a -->x"), H("<p><!--a-->x")) }, func() string { return "" }},
		{"KeepSpecialComments", func() string {
			return c16OracleKeepSpecial(H("<!--[if IE]> <p>x</p> <![endif]--><!--# include x -->"), H("<!--[if IE]><p>x<![endif]-->"), false)
		}, func() string {
			return c16OracleKeepSpecial(H("<!-- c --><!--[if IE]> <p>x</p> <![endif]--><!--# include x -->"), H("<!--[if IE]><p>x<![endif]--><!--# include x -->"), false)
		}},
		{"KeepSpecialComments/opener", func() string {
			return c16OracleKeepSpecial(H("<!--[if IE 6]>x<![endif]-->"), H("<!--[if IE]>x<![endif]-->"), false)
		}, func() string { return "" }},
		{"nothing-else", func() string {
			return c16OracleNothingElse([]byte("<pre><!--c-->\n\nx</pre>"), []byte("<pre>\n\nx</pre>"))
		}, func() string {
			return c16OracleNothingElse([]byte("<p>a <!--c-->b<pre><!--c-->\nx</pre><!--[if IE]><p>y<![endif]-->"), []byte("<p>a b<pre>\n\nx</pre>"))
		}},
		{"nothing-else/space", func() string { return c16OracleNothingElse([]byte("<p>a<!--c-->b"), []byte("<p>a b")) }, func() string { return "" }},
		{"pre-text", func() string { return c16OraclePreText([]byte("<pre><!--c-->\nx</pre>"), []byte("<pre><!--c-->\n\nx</pre>")) },
			func() string { return c16OraclePreText([]byte("<pre><!--c-->\nx</pre><pre>\n a  b </pre>"), []byte("<pre>\n\nx</pre><pre>\n a  b </pre>")) }},
		{"KeepEndTags", func() string { return first(c16OracleKeepEndTags(H("<ul><li>a</li><li>b</li></ul>"), H("<ul><li>a<li>b</ul>"), false, true)) },
			func() string { return first(c16OracleKeepEndTags(H("<script></script><ul><li>a</li></ul><body class=a></body>"), H("<ul><li>a</li></ul><body class=a>"), false, true)) }},
		{"KeepEndTags/K1-fixed", func() string { return first(c16OracleKeepEndTags(H("<body class=a><p>x</p></body>"), H("<body class=a><p>x</p>"), false, false)) },
			func() string { return first(c16OracleKeepEndTags(H("<body><p>x</p></body>"), H("<p>x</p>"), false, false)) }},
		{"KeepEndTags/p", func() string { return first(c16OracleKeepEndTags(H("<p>a</p><p>b</p>"), H("<p>a<p>b"), true, true)) }, func() string { return "" }},
		{"KeepDocumentTags", func() string { return c16OracleKeepDocumentTags(H("<html><head></head><body>x</body></html>"), H("x")) },
			func() string { return c16OracleKeepDocumentTags(H("<html><head></head><body>x</body></html>"), H("<html><head></head><body>x</body></html>")) }},
		{"KeepDocumentTags/end", func() string { return c16OracleKeepDocumentTags(H("<html><body>x</body></html>"), H("<html><body>x")) }, func() string { return "" }},
		{"KeepQuotes", func() string { return first(c16OracleKeepQuotes(H(`<a href="x" title='y'>`), H(`<a href=x title='y'>`), true)) },
			func() string { return first(c16OracleKeepQuotes(H(`<a href="x" title='y' lang=en rel="" onclick="f()">`), H(`<a href="x" title="y" lang=en rel onclick=f()>`), true)) }},
		{"KeepQuotes/K4-fixed", func() string { return first(c16OracleKeepQuotes(H(`<a onclick="f()">`), H(`<a onclick=f()>`), false)) }, func() string { return "" }},
		{"KeepDefaultAttrVals", func() string { return first(c16OracleKeepDefaults(H(`<form method="get"><input type="text" value="">`), H(`<form><input type=text>`), true)) },
			func() string {
				return first(c16OracleKeepDefaults(H(`<form method="get" action=""><input type="text" value=""><p class="" style="" onclick="">`), H(`<form method=get><input type=text><p>`), true))
			}},
		{"KeepDefaultAttrVals/K2-fixed", func() string { return first(c16OracleKeepDefaults(H(`<input type="text" value="">`), H(`<input type=text>`), false)) }, func() string { return "" }},
		{"KeepDefaultAttrVals/value", func() string { return first(c16OracleKeepDefaults(H(`<script type="text/javascript">`), H(`<script type=module>`), true)) }, func() string { return "" }},
		{"KeepWhitespace", func() string { return c16OracleKeepWhitespace(H("<p>a <b>b</b> c</p>"), H("<p>a <b>b</b>c</p>")) },
			func() string { return c16OracleKeepWhitespace(H(" <p>a  <b> b</b> c </p> <pre> x  y </pre> "), H("<p>a <b> b</b> c <pre> x  y </pre>")) }},
		{"KeepWhitespace/block", func() string { return c16OracleKeepWhitespace(H("<div>a</div> <div>b</div>"), H("<div>a</div><div>b</div>")) }, func() string { return "" }},
		{"KeepWhitespace/word", func() string { return c16OracleKeepWhitespace(H("<p>a b"), H("<p>ab")) }, func() string { return "" }},
		{"TemplateDelims", func() string { return c16OracleTemplates([]byte(`<p class="{{ .A }}">{{ if .B }} x {{ end }}`), []byte(`<p class="{{.A}}">{{ if .B }} x {{ end }}`), "{{", "}}") },
			func() string { return c16OracleTemplates([]byte(`<p class="{{ .A }}">{{ if .B }} x {{ end }}`), []byte(`<p class="{{ .A }}">{{ if .B }}x{{ end }}`), "{{", "}}") }},
		{"numbers/p0", func() string { return c16OracleNumbers([]string{"1.50", "100"}, []string{"1.5", "1e3"}, 0) }, func() string { return c16OracleNumbers([]string{"1.50", "1000", "0.10e-2"}, []string{"1.5", "1e3", ".001"}, 0) }},
		{"numbers/p3", func() string { return c16OracleNumbers([]string{"1.23456"}, []string{"1.24"}, 3) }, func() string { return c16OracleNumbers([]string{"1.23456", "99.95", "123456"}, []string{"1.23", "100", "123e3"}, 3) }},
		{"numbers/p3-low", func() string { return c16OracleNumbers([]string{"1.23456"}, []string{"1.2"}, 3) }, func() string { return "" }},
		{"svg/comments", func() string { return c16OracleSVGComments([]byte("<svg><!-- a --><g/></svg>"), []byte("<svg><g/></svg>")) },
			func() string { return c16OracleSVGComments([]byte("<svg><!-- a --><g/></svg>"), []byte("<svg><!-- a --><g/></svg>")) }},
		{"svg/precision", func() string { return c16OracleSVGPrecision([]byte(`<svg><rect x="1.2345" width="10"/></svg>`), []byte(`<svg><rect x="1.3" width="10"/></svg>`), 2) },
			func() string { return c16OracleSVGPrecision([]byte(`<svg><rect x="1.2345px" width="10"/></svg>`), []byte(`<svg><rect x="1.2px" width="10"/></svg>`), 2) }},
		{"js/version", func() string { return first(c16OracleVersion(c16ScanJS([]byte("x=a==null?b:a")), c16ScanJS([]byte("x=a??b")), 2019, true)) },
			func() string { return first(c16OracleVersion(c16ScanJS([]byte("x=a??b;y=`t`")), c16ScanJS([]byte("x=a??b,y=`t`")), 5, true)) }},
		{"js/version-catch", func() string { return first(c16OracleVersion(c16ScanJS([]byte("try{a()}catch(e){b()}")), c16ScanJS([]byte("try{a()}catch{b()}")), 2018, true)) }, func() string { return "" }},
		{"js/version-exp", func() string { return first(c16OracleVersion(c16ScanJS([]byte("x=Math.pow(a,b)")), c16ScanJS([]byte("x=a**b")), 2015, true)) }, func() string { return "" }},
		{"js/version-optchain", func() string { return first(c16OracleVersion(c16ScanJS([]byte("x=a==null?void 0:a.b")), c16ScanJS([]byte("x=a?.b")), 2019, true)) }, func() string { return "" }},
		{"js/version-template", func() string { return first(c16OracleVersion(c16ScanJS([]byte(`x="a\nb"`)), c16ScanJS([]byte("x=`a\nb`")), 5, true)) }, func() string { return "" }},
		{"js/version-shorthand-fixed", func() string { return first(c16OracleVersion(c16ScanJS([]byte("x={a:a,b:b}")), c16ScanJS([]byte("x={a,b}")), 5, false)) },
			func() string { return first(c16OracleVersion(c16ScanJS([]byte("x={a:a,b:b};if(c){d}")), c16ScanJS([]byte("x={a:a,b:b};if(c){d}")), 5, false)) }},
		{"js/version-pattern", func() string { return first(c16OracleVersion(c16ScanJS([]byte("x={a:a}")), c16ScanJS([]byte("var y=1,z={a}")), 5, false)) },
			func() string { return first(c16OracleVersion(c16ScanJS([]byte("var {a}=o;var b=1")), c16ScanJS([]byte("var b=1,{a}=o")), 5, false)) }},
		{"js/keepvarnames", func() string { return c16OracleKeepVarNames(c16ScanJS([]byte("function f(alpha){return alpha}")), c16ScanJS([]byte("function f(e){return e}"))) },
			func() string { return c16OracleKeepVarNames(c16ScanJS([]byte("function f(alpha){return alpha}")), c16ScanJS([]byte("function f(alpha){return alpha}"))) }},
	}
	for _, t := range tests {
		if r := t.bad(); r == "" || r == c16Skip {
			return fmt.Errorf("C16 oracle self-test %s: a violating output is not reported", t.name)
		}
		if r := t.good(); r != "" {
			return fmt.Errorf("C16 oracle self-test %s: a conforming output is reported: %s", t.name, r)
		}
	}
	if _, hasExp, ini := c16CSSNumbers([]byte("a{width:1e3px;color:initial;height:2em}")); !hasExp || ini != 1 {
		return fmt.Errorf("C16 oracle self-test css: exponent / initial not seen")
	}
	if _, hasExp, _ := c16CSSNumbers([]byte("a{width:1000px;height:2em;margin:1ex}")); hasExp {
		return fmt.Errorf("C16 oracle self-test css: exponent seen in `2em`")
	}
	return nil
}

// ---------- generators ----------

type c16Gen struct{ r *h.RNG }

func (g c16Gen) pick(s ...string) string { return s[g.r.Intn(len(s))] }

func (g c16Gen) ws() string { return g.pick("", "", " ", "  ", "\n", " \n ", "\t") }

func (g c16Gen) word() string {
	return g.pick("a", "b", "word", "x1", "&amp;", "&lt;", "é", "foo-bar", "1.50", "&#65;", "z")
}

func (g c16Gen) text() string {
	var b strings.Builder
	b.WriteString(g.ws())
	for i, n := 0, 1+g.r.Intn(3); i < n; i++ {
		if i > 0 {
			b.WriteString(g.pick(" ", "  ", "\n", " \t "))
		}
		b.WriteString(g.word())
	}
	b.WriteString(g.ws())
	return b.String()
}

func (g c16Gen) tmpl(open, close string) string {
	if open == "" || !g.r.Chance(30) {
		return ""
	}
	return open + g.pick(" .A ", ".B", " if .C ", " end ", " x | y ") + close
}

func (g c16Gen) attrVal(v string) string {
	switch g.r.Intn(4) {
	case 0:
		if !strings.ContainsAny(v, " \t\n\"'=<>`") && v != "" {
			return "=" + v
		}
	case 1:
		return `='` + strings.ReplaceAll(v, "'", "&#39;") + `'`
	}
	return `="` + strings.ReplaceAll(v, `"`, "&#34;") + `"`
}

func (g c16Gen) attrs(tag, open, close string) string {
	var b strings.Builder
	used := map[string]bool{}
	add := func(n, v string) {
		if used[n] {
			return
		}
		used[n] = true
		b.WriteString(g.pick(" ", " ", "  ", "\n") + n)
		if v != "\x00" {
			b.WriteString(g.attrVal(v))
		}
	}
	switch tag {
	case "script":
		if g.r.Chance(60) {
			add("type", g.pick("text/javascript", "application/javascript", "text/JavaScript", "module", "text/template"))
		}
		if g.r.Chance(20) {
			add("src", "a.js")
			add("charset", "utf-8")
		}
	case "style":
		if g.r.Chance(60) {
			add("type", "text/css")
		}
		if g.r.Chance(40) {
			add("media", g.pick("all", "print"))
		}
	case "link":
		add("rel", "stylesheet")
		add("type", "text/css")
		add("href", "a.css")
	case "form":
		add("method", g.pick("get", "GET", "post"))
		if g.r.Chance(50) {
			add("action", g.pick("", "/x"))
		}
		if g.r.Chance(40) {
			add("enctype", "application/x-www-form-urlencoded")
		}
	case "input":
		add("type", g.pick("text", "TEXT", "radio", "checkbox", "submit", "password"))
		if g.r.Chance(60) {
			add("value", g.pick("", "on", "v", " w "))
		}
		if g.r.Chance(30) {
			add("checked", g.pick("\x00", "checked", ""))
		}
	case "button":
		add("type", g.pick("submit", "button"))
	case "td", "th":
		if g.r.Chance(50) {
			add("colspan", g.pick("1", "2"))
		}
		if g.r.Chance(30) {
			add("rowspan", "1")
		}
	case "a":
		add("href", g.pick("http://x/y?a=1&amp;b=2", "HTTP://X/", "#t", "a b", "x"+g.tmpl(open, close)))
		if g.r.Chance(30) {
			add("id", "k")
			add("name", g.pick("k", "l"))
		}
	case "area":
		add("shape", g.pick("rect", "circle"))
	case "img":
		add("src", "i.png")
		add("alt", g.pick("", "an image", `say "hi"`, "it's"))
	}
	if g.r.Chance(45) {
		add("class", g.pick("x", "x y", "", " z ", "c"+g.tmpl(open, close)))
	}
	if g.r.Chance(25) {
		add("id", g.pick("i1", "", "i2"))
	}
	if g.r.Chance(20) {
		add("title", g.pick("t", "a b", `q"q`, "it's", "", "x=y", "a>b"))
	}
	if g.r.Chance(15) {
		add("style", g.pick("color:red", "", " margin : 0px "))
	}
	if g.r.Chance(10) {
		add("onclick", g.pick("f()", "", "javascript:g(1)"))
	}
	if g.r.Chance(10) {
		add("data-x", g.pick("1", "a b", ""))
	}
	if g.r.Chance(10) {
		add("lang", "en")
	}
	return b.String()
}

func (g c16Gen) comment() string {
	return g.pick("<!-- c -->", "<!--x-->", "<!-- two words -->", "<!--[if IE]> <p> ie </p> <![endif]-->", "<!--[if lt IE 9]><b>old</b><![endif]-->",
		"<!--# include file=\"h.html\" -->", "<!--#echo var=\"X\"-->", "<!--[if !IE]><!-->", "<!--<![endif]-->", "<!-- a\nb -->")
}

var c16Inline = []string{"span", "b", "i", "a", "em", "code", "q", "label", "small"}
var c16Block = []string{"div", "p", "section", "h1", "blockquote", "article"}

func (g c16Gen) flow(depth int, open, close string) string {
	var b strings.Builder
	for i, n := 0, 1+g.r.Intn(4); i < n; i++ {
		switch k := g.r.Intn(16); {
		case k < 5:
			b.WriteString(g.text())
			b.WriteString(g.tmpl(open, close))
		case k < 8 && depth > 0:
			t := c16Inline[g.r.Intn(len(c16Inline))]
			b.WriteString("<" + t + g.attrs(t, open, close) + ">" + g.flow(depth-1, open, close) + "</" + t + g.pick("", "", " ") + ">")
		case k < 10 && depth > 0:
			t := c16Block[g.r.Intn(len(c16Block))]
			end := "</" + t + ">"
			if t == "p" && g.r.Chance(40) {
				end = ""
			}
			b.WriteString("<" + t + g.attrs(t, open, close) + ">" + g.flow(depth-1, open, close) + end + g.ws())
		case k == 10:
			b.WriteString(g.comment())
		case k == 11 && depth > 0:
			b.WriteString("<ul" + g.attrs("ul", open, close) + ">" + g.ws())
			for j, m := 0, 1+g.r.Intn(3); j < m; j++ {
				b.WriteString("<li>" + g.flow(depth-1, open, close) + g.pick("</li>", "</li>", "") + g.ws())
			}
			b.WriteString("</ul>")
		case k == 12 && depth > 0:
			b.WriteString("<table>" + g.pick("", "<colgroup><col></colgroup>", `<colgroup span="2"></colgroup>`) + g.pick("", "<tbody>") + "<tr><td" + g.attrs("td", open, close) + ">" + g.text() + g.pick("</td>", "") + "<td>" + g.word() + "</td></tr>" + g.pick("", "</tbody>") + "</table>")
		case k == 13:
			t := g.pick("br", "img", "input", "hr", "area")
			b.WriteString("<" + t + g.attrs(t, open, close) + g.pick(">", ">", "/>"))
		case k == 14 && depth > 0:
			switch g.r.Intn(6) {
			case 0:
				b.WriteString("<form" + g.attrs("form", open, close) + "><input" + g.attrs("input", open, close) + "><button" + g.attrs("button", open, close) + ">ok</button></form>")
			case 1:
				b.WriteString("<select><option>1</option> <option>2" + g.pick("</option>", "") + "</select>")
			case 2:
				b.WriteString("<pre>" + g.pick(" a  b ", "\nx\n", "<!-- pc -->\n y", "<!--[if IE]>a<![endif]-->\nx", "<!--# include file=\"a\" -->\r\nz", "\n<!-- c -->\nq", "<!-- c1 --><!-- c2 -->\n\nw", "<b><!-- c -->\nv</b>") + "</pre>")
			case 3:
				b.WriteString("<script" + g.attrs("script", open, close) + ">" + g.pick("", "var a = 1;", "x()") + "</script>")
			case 4:
				b.WriteString("<style" + g.attrs("style", open, close) + ">" + g.pick("", "a{color:red}") + "</style>")
			case 5:
				b.WriteString(g.pick("<dl><dt>t</dt><dd>"+g.word()+g.pick("</dd>", "")+"</dl>", "<textarea><!-- t -->\n a  b </textarea>", "<textarea>\n\nq</textarea>"))
			}
		default:
			b.WriteString(g.text())
		}
	}
	return b.String()
}

func (g c16Gen) html(open, close string) string {
	body := g.flow(3, open, close)
	if !g.r.Chance(55) {
		return body
	}
	var b strings.Builder
	b.WriteString(g.pick("", "<!DOCTYPE html>", "<!doctype html>\n"))
	b.WriteString("<html" + g.pick("", "", ` lang="en"`) + ">" + g.ws())
	b.WriteString("<head" + g.pick("", "", ` id="h"`) + ">" + g.pick("", `<meta charset="utf-8">`) + "<title>" + g.text() + "</title>")
	if g.r.Chance(40) {
		b.WriteString("<link" + g.attrs("link", open, close) + ">")
	}
	if g.r.Chance(30) {
		b.WriteString(g.comment())
	}
	b.WriteString(g.pick("</head>", "</head>", "") + g.ws())
	b.WriteString("<body" + g.pick("", "", ` class="a"`, ` id=b`) + ">" + body + g.pick("</body>", "</body>", "") + g.ws() + g.pick("</html>", "</html>", ""))
	return b.String()
}

func (g c16Gen) num() string {
	return g.pick("0", "1", "10", "1.50", "0.5", "00.250", "12.345678", "1000000", "100000", "0.000001", "3.14159265358979", "99.95", "999.5", "1e3", "1.5e-3",
		"-2.50", "+3.0", ".75", "123456789.123", "0.1e1", "2.000", "45.0e0")
}

func (g c16Gen) css(plain bool) string {
	var b strings.Builder
	for i, n := 0, 1+g.r.Intn(4); i < n; i++ {
		b.WriteString(g.pick("a", ".c", "#i", "p b", "a:hover") + g.ws() + "{")
		for j, m := 0, 1+g.r.Intn(4); j < m; j++ {
			k := g.r.Intn(8)
			if plain && k != 1 && k != 4 {
				k = 7
			}
			switch k {
			case 0:
				b.WriteString("background-color:" + g.pick("transparent", "TRANSPARENT", "red", "#ff0000", "rgba(0,0,0,0)") + ";")
			case 1:
				b.WriteString(g.pick("width", "height", "top", "line-height", "z-index", "opacity") + ":" + g.ws() + g.num() + g.pick("", "px", "em", "%", "ex", "rem") + ";")
			case 2:
				b.WriteString("margin:" + g.num() + "px " + g.num() + "px;")
			case 3:
				b.WriteString("color:" + g.pick("red", "#ff0000", "rgb(255,0,0)", "transparent", "initial", "currentcolor") + ";")
			case 4:
				b.WriteString("transform:translate(" + g.num() + "px," + g.num() + "em) scale(" + g.num() + ");")
			case 5:
				b.WriteString("border-top-color:" + g.pick("currentcolor", "red", "transparent") + ";")
			case 6:
				b.WriteString("font-weight:" + g.pick("bold", "normal", "400", "700") + ";")
			default:
				b.WriteString("padding:" + g.num() + g.pick("px", "%", "") + ";")
			}
		}
		b.WriteString("}" + g.ws())
	}
	return b.String()
}

func (g c16Gen) cssInline() string {
	var b strings.Builder
	for j, m := 0, 1+g.r.Intn(3); j < m; j++ {
		b.WriteString(g.pick("width", "margin", "background-color", "opacity") + ":" + g.pick(g.num()+"px", "transparent", g.num()) + g.pick(";", " ; ", ""))
		if !strings.HasSuffix(b.String(), ";") && !strings.HasSuffix(b.String(), "; ") {
			b.WriteString(";")
		}
	}
	return b.String()
}

func (g c16Gen) js() string {
	ids := []string{"alpha", "beta", "gamma", "delta", "count", "value", "item"}
	id := func() string { return ids[g.r.Intn(len(ids))] }
	var b strings.Builder
	for i, n := 0, 1+g.r.Intn(5); i < n; i++ {
		a, c, d := id(), id(), id()
		switch g.r.Intn(19) {
		case 16, 17, 18:
			// a destructuring `var` next to a block that declares the same name lexically and holds the hoist target
			// hoisting is decided by byte cost: only short names are cheap enough, so this shape uses one-letter names
			n := g.pick("a", "b", "k", "x")
			o := g.pick("o", "w")
			pat := g.pick("["+n+"]", "["+n+",y]", "["+n+"=1]", "[..."+n+"]", "{"+n+"}", "{z:"+n+"}", "{"+n+"=2}", "[{"+n+"}]", "{z:["+n+"]}", "[,"+n+"]")
			// (a block-level `function a(){}` is the open known finding K-C16-5: not generated, see c16TrigBlockFn)
			lex := g.pick("let "+n+"=1;", "const "+n+"=1;", "class "+n+"{}", "let ["+n+"]=[1];", "const {"+n+"}={};")
			vars := "var p=2,q=3,r=4,u=5" + g.pick("", ",m=6", ",m=6,j=7") + ";"
			blk := g.pick("{"+lex+vars+"g("+n+",p,q,r,u)}", "if("+o+"){"+lex+vars+"g("+n+")}", "for(;;){"+lex+vars+"break}", "try{"+lex+vars+"}catch(e){}",
				"{"+vars+lex+"}", "{{"+lex+"}"+vars+"}", "for(var i=0,t=2,s=0;i<t;i++){"+lex+"s+="+n+"}")
			body := "var " + pat + "=" + o + ";" + blk + "g(" + n + ");"
			if g.r.Bool() {
				body = blk + "var " + pat + "=" + o + ";g(" + n + ");"
			}
			if g.r.Chance(70) {
				b.WriteString("function f" + a + "(" + o + "){" + body + "return " + n + "}")
			} else {
				b.WriteString(body)
			}
		case 0:
			b.WriteString("function " + a + "(" + c + "," + d + "){var local" + c + "=" + c + "+" + d + ";return function(inner){return local" + c + "+inner}}")
		case 1:
			b.WriteString("x=" + a + "==null?" + c + ":" + a + ";")
		case 2:
			b.WriteString("y=" + a + "==null?undefined:" + a + "." + c + ";")
		case 3:
			b.WriteString("z=Math.pow(" + a + "," + g.pick("2", c) + ");")
		case 4:
			b.WriteString("try{" + a + "()}catch(err){" + c + "()}")
		case 5:
			b.WriteString("var s" + a + "='l1\\nl2\\nl3\\nl4';")
		case 6:
			b.WriteString("var o" + a + "={" + a + ":" + a + "," + c + ":" + d + ",k:1};")
		case 7:
			b.WriteString("n=" + g.num() + "+" + g.num() + "*" + a + ";")
		case 8:
			b.WriteString("w=" + a + "===null||" + a + "===undefined?" + c + ":" + a + ";")
		case 9:
			b.WriteString("let q" + a + "=" + a + "?." + c + "??" + d + ";")
		case 10:
			b.WriteString("let r" + a + "=" + a + "**2;let t" + c + "=`x${" + d + "}`;")
		case 11:
			b.WriteString("try{" + a + "()}catch{" + c + "()}")
		case 12:
			b.WriteString("var p" + a + "={" + a + "," + c + "};")
		case 13:
			b.WriteString("if(" + a + "){" + c + "()}else{" + d + "()}")
		case 14:
			b.WriteString("for(var i" + a + "=0;i" + a + "<" + g.num() + ";i" + a + "++){" + c + "(i" + a + ")}")
		default:
			b.WriteString("(function(" + a + "){var long" + a + "=" + a + "*" + g.num() + ";return long" + a + "+" + g.pick("1.0", "0.50", "1e3", "1000000") + "})(" + c + ");")
		}
	}
	return b.String()
}

func (g c16Gen) jsonDoc(depth int) string {
	switch k := g.r.Intn(8); {
	case k < 3 || depth == 0:
		return g.pick("0", "1", "-1", "1.0", "1.50", "0.5", "-0.0", "1e3", "1E+2", "1.5e-3", "100000", "1000000", "12.345678", "123456789.123", "0.000001", "99.95", "2.000", "true", "null", `"s"`, `"1.50"`)
	case k < 6:
		var p []string
		for i, n := 0, g.r.Intn(4); i < n; i++ {
			p = append(p, g.ws()+g.jsonDoc(depth-1)+g.ws())
		}
		return "[" + strings.Join(p, ",") + "]"
	default:
		var p []string
		for i, n := 0, g.r.Intn(4); i < n; i++ {
			p = append(p, g.ws()+`"k`+fmt.Sprint(i)+`"`+g.ws()+":"+g.ws()+g.jsonDoc(depth-1))
		}
		return "{" + strings.Join(p, ",") + "}"
	}
}

func (g c16Gen) svg() string {
	var b strings.Builder
	b.WriteString(`<svg xmlns="http://www.w3.org/2000/svg"` + g.pick("", ` width="`+g.num()+`"`, ` viewBox="0 0 10.50 20"`) + ">" + g.ws())
	for i, n := 0, 1+g.r.Intn(5); i < n; i++ {
		switch g.r.Intn(7) {
		case 0:
			b.WriteString("<!-- " + g.pick("c", "two words", "x") + " -->")
		case 1:
			b.WriteString(`<rect x="` + g.num() + `" y="` + g.num() + g.pick("", "px", "%") + `" width="` + g.num() + `" height="` + g.num() + `"/>`)
		case 2:
			b.WriteString(`<circle cx="` + g.num() + `" cy="` + g.num() + `" r="` + g.num() + `"/>`)
		case 3:
			b.WriteString(`<g><!--g--><line x1="` + g.num() + `" y1="` + g.num() + `" x2="` + g.num() + `" y2="` + g.num() + `"/></g>`)
		case 4:
			b.WriteString(`<path d="M ` + g.num() + " " + g.num() + " L " + g.num() + " " + g.num() + ` z"/>`)
		case 5:
			b.WriteString("<text> a  b </text>")
		default:
			b.WriteString(g.ws())
		}
	}
	b.WriteString("</svg>")
	return b.String()
}

func (g c16Gen) xmlDoc(depth int) string {
	var b strings.Builder
	for i, n := 0, 1+g.r.Intn(3); i < n; i++ {
		switch k := g.r.Intn(6); {
		case k < 2 || depth == 0:
			b.WriteString(g.ws() + g.pick("t", "x y", "a&amp;b") + g.ws())
		case k < 5:
			t := g.pick("a", "b", "item", "n:e")
			b.WriteString("<" + t + g.pick("", ` k="v"`, ` k = ' v '`) + ">" + g.xmlDoc(depth-1) + "</" + t + ">")
		default:
			b.WriteString(g.pick("<e/>", "<!-- c -->", "<![CDATA[ d ]]>", "<e></e>"))
		}
	}
	return b.String()
}

// Command corr is the correspondence / search harness: `corr <Cxx> -tier quick|thorough -seed N -out report.json`.
// Each property registers a runner in its own file (cNN.go).
package main

import (
	"flag"
	"fmt"
	"os"
	"sort"

	"verifharness/h"
)

type Ctx struct {
	R      *h.Report
	Tier   string
	Seed   uint64
	Rng    *h.RNG
	Search bool   // widened search for a failing input (after a broken proof / correspondence)
	Replay string // path of a replay file to re-run (optional)
	Repo   string
}

func (c *Ctx) Thorough() bool { return c.Tier == "thorough" }

// N picks a size by tier.
func (c *Ctx) N(quick, thorough int) int {
	if c.Thorough() {
		return thorough
	}
	return quick
}

var runners = map[string]func(*Ctx) error{}

func register(id string, f func(*Ctx) error) { runners[id] = f }

func main() {
	if len(os.Args) < 2 {
		ids := []string{}
		for k := range runners {
			ids = append(ids, k)
		}
		sort.Strings(ids)
		fmt.Println("usage: corr <property> [-tier quick|thorough] [-seed N] [-out file] [-search] [-replay file]; properties:", ids)
		os.Exit(2)
	}
	id := os.Args[1]
	fs := flag.NewFlagSet("corr", flag.ExitOnError)
	tier := fs.String("tier", "quick", "")
	seed := fs.Uint64("seed", 1, "")
	out := fs.String("out", "", "")
	search := fs.Bool("search", false, "")
	replay := fs.String("replay", "", "")
	vdrv := fs.String("vdrv", h.VdrvPath, "")
	repo := fs.String("repo", "/repo", "")
	workers := fs.Int("workers", h.Workers, "")
	fs.Parse(os.Args[2:])
	h.VdrvPath = *vdrv
	h.Workers = *workers
	f, ok := runners[id]
	if !ok {
		fmt.Fprintln(os.Stderr, "no runner for", id)
		os.Exit(2)
	}
	ctx := &Ctx{R: &h.Report{Property: id, Tier: *tier, Seed: *seed}, Tier: *tier, Seed: *seed, Rng: h.NewRNG(*seed), Search: *search, Replay: *replay, Repo: *repo}
	err := f(ctx)
	if *out != "" {
		if werr := ctx.R.Write(*out); werr != nil {
			fmt.Fprintln(os.Stderr, "write report:", werr)
			os.Exit(2)
		}
	}
	if err != nil {
		fmt.Fprintln(os.Stderr, "harness error:", err)
		os.Exit(2)
	}
}

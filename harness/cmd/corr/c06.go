package main

// C06 — XML minification preserves the infoset up to insignificant whitespace.
//
// Tie (tokens→bytes): generated / corpus XML is lexed with the REAL dependency lexer
// (github.com/tdewolff/parse/v2/xml), the token list goes to the Lean model `model.c06.minify` and the
// result is compared with the bytes written by the real `xml.Minifier.Minify` (KeepWhitespace off/on).
//
// Property oracle, independent of the model, evaluated on the real implementation's output:
//  (1) `c06Read`: a small XML 1.0 reader written for this check (raw attribute values, XML 1.0 §3.3.3
//      attribute-value normalisation, §2.11 end-of-line handling, character/entity references, well-formedness
//      of character data and attribute values, element nesting) → canonical item streams of input and output
//      compared up to insignificant whitespace (`c06Canon`);
//  (2) `encoding/xml` token streams of input and output as a second opinion (it must accept the output);
//  (3) the Lean specification `spec.c06.holds` on the token lists of input and output (real lexer).
// A failing clause is a Finding of kind "fail" unless it is the recorded signature of an open known finding
// whose trigger predicate (`trig.c06`, defined in Lean; the CR LF trigger is byte level) holds for the input.

import (
	"bytes"
	"encoding/hex"
	"encoding/json"
	exml "encoding/xml"
	"fmt"
	"io"
	"os"
	"path/filepath"
	"sort"
	"strconv"
	"strings"
	"time"
	"unicode/utf8"

	"github.com/tdewolff/minify/v2"
	mxml "github.com/tdewolff/minify/v2/xml"
	"github.com/tdewolff/parse/v2"
	pxml "github.com/tdewolff/parse/v2/xml"

	"verifharness/h"
)

// ---------- real lexer ----------

type c06Tok struct {
	tt                  pxml.TokenType
	data, text, attrVal []byte
	bare                bool // attribute token without `=` (AttrVal is nil)
}

func c06Lex(src []byte) []c06Tok {
	b := make([]byte, len(src), len(src)+1)
	copy(b, src)
	z := parse.NewInputBytes(b)
	defer z.Restore()
	l := pxml.NewLexer(z)
	var out []c06Tok
	for {
		tt, data := l.Next()
		if tt == pxml.ErrorToken {
			return out
		}
		t := c06Tok{tt: tt, data: append([]byte{}, data...), text: append([]byte{}, l.Text()...)}
		if tt == pxml.AttributeToken {
			t.attrVal = append([]byte{}, l.AttrVal()...)
			t.bare = l.AttrVal() == nil
		}
		out = append(out, t)
	}
}

func c06Groups(ts []c06Tok) string {
	gs := make([][][]byte, len(ts))
	for i, t := range ts {
		kind := int(t.tt)
		if t.bare {
			kind = 12
		}
		gs[i] = [][]byte{[]byte(strconv.Itoa(kind)), t.data, t.text, t.attrVal}
	}
	return h.Groups(gs)
}

func c06Minify(src []byte, keep bool) (out []byte, err error, crash string) {
	crash = h.Safely(20*time.Second, func() {
		var w bytes.Buffer
		m := minify.New()
		err = (&mxml.Minifier{KeepWhitespace: keep}).Minify(m, &w, bytes.NewReader(append([]byte{}, src...)), nil)
		out = w.Bytes()
	})
	return
}

// ---------- generator of well-formed documents ----------

var c06Names = []string{"a", "b", "c", "x:y", "item", "_n", "d-1", "A"}
var c06AttrNames = []string{"id", "k", "xml:lang", "v", "data-x", "n"}
var c06Words = []string{"x", "yz", "cats", "and", "dogs", "1", ">", "]", "]]", "]]x", "a>b", "\"", "'", "=", "/", "é", " ", "€", ";", "#", "q;", "lt;", "#60;", "-", "--", "?", "!", "[", "CDATA["}
var c06Ws = []string{" ", " ", " ", "  ", "\n", "\t", "\r\n", " \n  ", "\n\n", "\t ", "\r"}
var c06RefVals = []int{9, 10, 13, 32, 34, 38, 39, 60, 62, 93, 65, 122, 48, 35, 59, 127, 128, 160, 233, 255, 256, 4095, 9999, 10000, 0x2028, 0xFFFD, 0x10000}
var c06Named = []string{"&lt;", "&gt;", "&amp;", "&quot;", "&apos;", "&e1;", "&ent.2;"}

func c06Ref(r *h.RNG, wide bool) string {
	if r.Chance(45) {
		return r.Pick(c06Named)
	}
	v := c06RefVals[r.Intn(len(c06RefVals))]
	if wide && r.Chance(30) { // thorough tier: every C0/ASCII value that is a legal XML character
		v = 32 + r.Intn(96)
	}
	z := strings.Repeat("0", []int{0, 0, 0, 1, 2, 5}[r.Intn(6)])
	switch r.Intn(3) {
	case 0:
		return "&#" + z + strconv.Itoa(v) + ";"
	case 1:
		return "&#x" + z + strconv.FormatInt(int64(v), 16) + ";"
	default:
		return "&#x" + z + strings.ToUpper(strconv.FormatInt(int64(v), 16)) + ";"
	}
}

func c06Text(r *h.RNG, sb *strings.Builder, wide bool) {
	n := 1 + r.Intn(5)
	if r.Chance(25) { // whitespace only
		sb.WriteString(r.Pick(c06Ws))
		return
	}
	if r.Chance(45) {
		sb.WriteString(r.Pick(c06Ws))
	}
	for i := 0; i < n; i++ {
		switch {
		case r.Chance(30):
			sb.WriteString(c06Ref(r, wide))
		default:
			w := r.Pick(c06Words)
			sb.WriteString(w)
		}
		if i+1 < n && r.Chance(60) {
			sb.WriteString(r.Pick(c06Ws))
		}
	}
	if r.Chance(45) {
		sb.WriteString(r.Pick(c06Ws))
	}
}

// c06FixText removes accidental `]]>` (not allowed literally in character data)
func c06FixText(s string) string {
	for strings.Contains(s, "]]>") {
		s = strings.Replace(s, "]]>", "]] >", -1)
	}
	return s
}

func c06CData(r *h.RNG, sb *strings.Builder) {
	var c strings.Builder
	n := r.Intn(5)
	parts := []string{"x", "y z", " ", "<", "&", "<b>", "&amp;", "]", "]]", ">", "\n", " lead", "trail ", "<<<<<", "&&&&", "]]]", "é"}
	for i := 0; i < n; i++ {
		c.WriteString(r.Pick(parts))
	}
	s := c.String()
	for strings.Contains(s, "]]>") {
		s = strings.Replace(s, "]]>", "]]", -1)
	}
	sb.WriteString("<![CDATA[" + s + "]]>")
}

func c06AttrVal(r *h.RNG, wide bool) string {
	q := "\""
	if r.Chance(25) {
		q = "'"
	}
	var v strings.Builder
	n := r.Intn(5)
	for i := 0; i < n; i++ {
		switch {
		case r.Chance(35):
			v.WriteString(c06Ref(r, wide))
		case r.Chance(20):
			v.WriteString(r.Pick([]string{" ", "  ", "\t", "\n", " ", "  ", "\t", "\n", "\r\n", " \n"}))
		case r.Chance(25):
			if q == "\"" {
				v.WriteString("'")
			} else {
				v.WriteString("\"")
			}
		default:
			w := r.Pick(c06Words)
			if strings.ContainsAny(w, "\"'") {
				w = "w"
			}
			v.WriteString(w)
		}
	}
	return q + v.String() + q
}

func c06TagWs(r *h.RNG) string {
	return r.Pick([]string{" ", " ", " ", "  ", "\n", "\t", "\r\n  "})
}

func c06Misc(r *h.RNG, sb *strings.Builder, inElem bool) {
	switch r.Intn(4) {
	case 0:
		sb.WriteString("<!--" + r.Pick([]string{"", " c ", "x", " <a> & ]]> ", "\n"}) + "-->")
	case 1:
		// processing instruction in pseudo-attribute form (the form the lexer models)
		sb.WriteString("<?" + r.Pick([]string{"pi", "xml-stylesheet", "p.i"}))
		for k := r.Intn(3); k > 0; k-- {
			sb.WriteString(c06TagWs(r) + r.Pick([]string{"href", "type", "a"}) + "=" + r.Pick([]string{"\"x\"", "'y'", "\"a b\"", "\"&quot;\"", "\"\"", "\"'\""}))
		}
		sb.WriteString(r.Pick([]string{"", "", " "}) + "?>")
	case 2:
		if r.Chance(5) { // free-form PI data
			sb.WriteString("<?" + r.Pick([]string{"php echo \"x\"; ", "pi some text", "pi a"}) + "?>")
		} else {
			sb.WriteString(r.Pick(c06Ws))
		}
	default:
		sb.WriteString(r.Pick(c06Ws))
	}
}

func c06Element(r *h.RNG, sb *strings.Builder, depth int, wide bool) {
	name := r.Pick(c06Names)
	sb.WriteString("<" + name)
	used := map[string]bool{}
	for k := []int{0, 0, 1, 1, 2, 3}[r.Intn(6)]; k > 0; k-- {
		an := r.Pick(c06AttrNames)
		if used[an] {
			continue
		}
		used[an] = true
		sb.WriteString(c06TagWs(r) + an)
		if r.Chance(10) {
			sb.WriteString(" ")
		}
		sb.WriteString("=")
		if r.Chance(10) {
			sb.WriteString(r.Pick([]string{" ", "\n"}))
		}
		sb.WriteString(c06AttrVal(r, wide))
	}
	if r.Chance(15) {
		sb.WriteString(c06TagWs(r))
	}
	if r.Chance(20) {
		sb.WriteString("/>")
		return
	}
	sb.WriteString(">")
	n := []int{0, 0, 1, 1, 2, 3, 4, 6}[r.Intn(8)]
	// segments; consecutive text segments are merged before `]]>` is removed from them
	type seg struct {
		text bool
		s    string
	}
	var segs []seg
	add := func(text bool, s string) {
		if text && len(segs) > 0 && segs[len(segs)-1].text {
			segs[len(segs)-1].s += s
			return
		}
		segs = append(segs, seg{text, s})
	}
	for i := 0; i < n; i++ {
		var piece strings.Builder
		switch k := r.Intn(10); {
		case k < 4:
			c06Text(r, &piece, wide)
			add(true, piece.String())
		case k < 6 && depth > 0:
			c06Element(r, &piece, depth-1, wide)
			add(false, piece.String())
		case k < 8:
			c06CData(r, &piece)
			add(false, piece.String())
		default:
			c06Misc(r, &piece, true)
			add(!strings.HasPrefix(piece.String(), "<"), piece.String())
		}
	}
	for _, sg := range segs {
		if sg.text {
			sb.WriteString(c06FixText(sg.s))
		} else {
			sb.WriteString(sg.s)
		}
	}
	sb.WriteString("</" + name)
	if r.Chance(15) {
		sb.WriteString(r.Pick([]string{" ", "\n", " \t"}))
	}
	sb.WriteString(">")
}

func c06Doc(r *h.RNG, wide bool) string {
	var sb strings.Builder
	if r.Chance(30) {
		sb.WriteString("<?xml" + r.Pick([]string{" ", "  "}) + "version=\"1.0\"" + r.Pick([]string{"", " encoding=\"UTF-8\"", " encoding='UTF-8'  standalone=\"yes\""}) + r.Pick([]string{"", " "}) + "?>")
	}
	for k := r.Intn(3); k > 0; k-- {
		c06Misc(r, &sb, false)
	}
	if r.Chance(35) {
		sb.WriteString(r.Pick([]string{
			"<!DOCTYPE a>", "<!DOCTYPE  a  SYSTEM  \"a.dtd\" >", "<!DOCTYPE a PUBLIC \"-//X//Y\" \"u\">",
			"<!DOCTYPE a [\n <!ENTITY e1 \"v 1\">\n <!ENTITY ent.2 \"&#60;w>\">\n]>",
			"<!DOCTYPE a [<!ELEMENT a ANY><!ATTLIST a id CDATA #IMPLIED> <!ENTITY e1 \"]\"> <!-- c > -->]>",
		}))
		for k := r.Intn(2); k > 0; k-- {
			c06Misc(r, &sb, false)
		}
	}
	c06Element(r, &sb, 3, wide)
	for k := r.Intn(3); k > 0; k-- {
		c06Misc(r, &sb, false)
	}
	return sb.String()
}

// ---------- independent reader (XML 1.0) ----------

type c06Attr struct{ name, raw string }
type c06Item struct {
	kind  byte // 'S' start tag, 'E' end tag, 'T' text, 'C' CDATA section, 'P' processing instruction, 'D' doctype
	name  string
	attrs []c06Attr
	data  string
}

type c06Ch struct {
	r   rune   // character (−1 for an entity reference that is not predefined)
	ent string // entity name
}

func c06IsS(c byte) bool { return c == ' ' || c == '\t' || c == '\n' || c == '\r' }

func c06LegalChar(v int) bool {
	return v == 9 || v == 10 || v == 13 || (v >= 0x20 && v <= 0xD7FF) || (v >= 0xE000 && v <= 0xFFFD) || (v >= 0x10000 && v <= 0x10FFFF)
}

// c06Decode decodes character data / an attribute value: references, §2.11 line ends, and for attributes the
// §3.3.3 normalisation (literal white space → space; a character reference stays the referenced character).
func c06Decode(raw string, attr bool, wf *[]string) []c06Ch {
	var out []c06Ch
	for i := 0; i < len(raw); {
		c := raw[i]
		switch {
		case c == '&':
			j := strings.IndexByte(raw[i:], ';')
			ok := false
			if j > 1 {
				body := raw[i+1 : i+j]
				switch {
				case strings.HasPrefix(body, "#x"):
					if v, err := strconv.ParseUint(body[2:], 16, 32); err == nil && !strings.ContainsAny(body[2:], "+-_") {
						if !c06LegalChar(int(v)) {
							*wf = append(*wf, "reference to illegal character")
						}
						out = append(out, c06Ch{r: rune(v)})
						ok = true
					}
				case strings.HasPrefix(body, "#"):
					if v, err := strconv.ParseUint(body[1:], 10, 32); err == nil && !strings.ContainsAny(body[1:], "+-_") {
						if !c06LegalChar(int(v)) {
							*wf = append(*wf, "reference to illegal character")
						}
						out = append(out, c06Ch{r: rune(v)})
						ok = true
					}
				default:
					nameOK := true
					for k := 0; k < len(body); k++ {
						b := body[k]
						if !(b >= 'a' && b <= 'z' || b >= 'A' && b <= 'Z' || b >= '0' && b <= '9' && k > 0 || b == '_' || b == ':' || (b == '.' || b == '-') && k > 0 || b >= 0x80) {
							nameOK = false
						}
					}
					if nameOK {
						switch body {
						case "lt":
							out = append(out, c06Ch{r: '<'})
						case "gt":
							out = append(out, c06Ch{r: '>'})
						case "amp":
							out = append(out, c06Ch{r: '&'})
						case "quot":
							out = append(out, c06Ch{r: '"'})
						case "apos":
							out = append(out, c06Ch{r: '\''})
						default:
							out = append(out, c06Ch{r: -1, ent: body})
						}
						ok = true
					}
				}
			}
			if ok {
				i += j + 1
			} else {
				*wf = append(*wf, "bare &")
				out = append(out, c06Ch{r: '&'})
				i++
			}
		case c == '\r':
			if i+1 < len(raw) && raw[i+1] == '\n' {
				i++
			}
			if attr {
				out = append(out, c06Ch{r: ' '})
			} else {
				out = append(out, c06Ch{r: '\n'})
			}
			i++
		case attr && (c == '\n' || c == '\t'):
			out = append(out, c06Ch{r: ' '})
			i++
		case c < 0x80:
			if !c06LegalChar(int(c)) {
				*wf = append(*wf, "illegal character")
			}
			out = append(out, c06Ch{r: rune(c)})
			i++
		default:
			r, n := utf8.DecodeRuneInString(raw[i:])
			if r == utf8.RuneError && n == 1 {
				out = append(out, c06Ch{r: 0x110000 + rune(c)})
			} else {
				out = append(out, c06Ch{r: r})
			}
			i += n
		}
	}
	return out
}

func c06ChStr(cs []c06Ch) string {
	var sb strings.Builder
	for _, c := range cs {
		if c.r < 0 {
			sb.WriteString("&{" + c.ent + "}")
		} else {
			sb.WriteString(strconv.QuoteRuneToASCII(c.r))
		}
	}
	return sb.String()
}

// c06Read reads a document; wf collects well-formedness problems ("fatal: …" stops the reader).
func c06Read(b []byte) (items []c06Item, wf []string, crlfInAttr bool) {
	i := 0
	n := len(b)
	has := func(s string) bool { return bytes.HasPrefix(b[i:], []byte(s)) }
	var stack []string
	roots := 0
	for i < n {
		if b[i] != '<' {
			j := bytes.IndexByte(b[i:], '<')
			if j < 0 {
				j = n - i
			}
			t := string(b[i : i+j])
			if strings.Contains(t, "]]>") {
				wf = append(wf, "]]> in character data")
			}
			if len(stack) == 0 && strings.TrimLeft(t, " \t\r\n") != "" {
				wf = append(wf, "text outside the root element")
			}
			items = append(items, c06Item{kind: 'T', data: t})
			i += j
			continue
		}
		switch {
		case has("<!--"):
			j := bytes.Index(b[i+4:], []byte("-->"))
			if j < 0 {
				return items, append(wf, "fatal: unterminated comment"), crlfInAttr
			}
			i += 4 + j + 3
		case has("<![CDATA["):
			j := bytes.Index(b[i+9:], []byte("]]>"))
			if j < 0 {
				return items, append(wf, "fatal: unterminated CDATA"), crlfInAttr
			}
			if len(stack) == 0 {
				wf = append(wf, "CDATA outside the root element")
			}
			items = append(items, c06Item{kind: 'C', data: string(b[i+9 : i+9+j])})
			i += 9 + j + 3
		case has("<!DOCTYPE"):
			j := i + 9
			depth := 0
			var q byte
			done := false
			for j < n && !done {
				c := b[j]
				switch {
				case q != 0:
					if c == q {
						q = 0
					}
				case bytes.HasPrefix(b[j:], []byte("<!--")):
					k := bytes.Index(b[j+4:], []byte("-->"))
					if k < 0 {
						return items, append(wf, "fatal: unterminated comment in DOCTYPE"), crlfInAttr
					}
					j += 4 + k + 2
				case c == '"' || c == '\'':
					q = c
				case c == '[':
					depth++
				case c == ']':
					depth--
				case c == '<':
					depth += 100
				case c == '>':
					if depth >= 100 {
						depth -= 100
					} else if depth <= 0 {
						done = true
					}
				}
				j++
			}
			if !done {
				return items, append(wf, "fatal: unterminated DOCTYPE"), crlfInAttr
			}
			if roots > 0 {
				wf = append(wf, "DOCTYPE after the root element")
			}
			items = append(items, c06Item{kind: 'D', data: string(b[i:j])})
			i = j
		case has("<?"):
			j := bytes.Index(b[i+2:], []byte("?>"))
			if j < 0 {
				return items, append(wf, "fatal: unterminated PI"), crlfInAttr
			}
			body := string(b[i+2 : i+2+j])
			k := 0
			for k < len(body) && !c06IsS(body[k]) {
				k++
			}
			if k == 0 {
				wf = append(wf, "PI without target")
			}
			items = append(items, c06Item{kind: 'P', name: body[:k], data: strings.TrimLeft(body[k:], " \t\r\n")})
			i += 2 + j + 2
		case has("</"):
			j := i + 2
			for j < n && !c06IsS(b[j]) && b[j] != '>' {
				j++
			}
			name := string(b[i+2 : j])
			for j < n && c06IsS(b[j]) {
				j++
			}
			if j >= n || b[j] != '>' {
				return items, append(wf, "fatal: malformed end tag"), crlfInAttr
			}
			if len(stack) == 0 || stack[len(stack)-1] != name {
				wf = append(wf, "end tag does not match")
			}
			if len(stack) > 0 {
				stack = stack[:len(stack)-1]
			}
			items = append(items, c06Item{kind: 'E', name: name})
			i = j + 1
		default:
			j := i + 1
			for j < n && !c06IsS(b[j]) && b[j] != '>' && b[j] != '/' && b[j] != '<' && b[j] != '=' {
				j++
			}
			name := string(b[i+1 : j])
			if name == "" || name[0] == '!' {
				return items, append(wf, "fatal: malformed markup"), crlfInAttr
			}
			it := c06Item{kind: 'S', name: name}
			seen := map[string]bool{}
			void := false
			for {
				k := j
				for j < n && c06IsS(b[j]) {
					j++
				}
				if j >= n {
					return items, append(wf, "fatal: unterminated start tag"), crlfInAttr
				}
				if b[j] == '>' {
					j++
					break
				}
				if b[j] == '/' && j+1 < n && b[j+1] == '>' {
					void = true
					j += 2
					break
				}
				if j == k {
					wf = append(wf, "no white space between attributes")
				}
				k = j
				for j < n && !c06IsS(b[j]) && b[j] != '=' && b[j] != '>' && b[j] != '/' && b[j] != '<' && b[j] != '"' && b[j] != '\'' {
					j++
				}
				an := string(b[k:j])
				for j < n && c06IsS(b[j]) {
					j++
				}
				if an == "" || j >= n || b[j] != '=' {
					return items, append(wf, "fatal: attribute without value"), crlfInAttr
				}
				j++
				for j < n && c06IsS(b[j]) {
					j++
				}
				if j >= n || (b[j] != '"' && b[j] != '\'') {
					return items, append(wf, "fatal: attribute value not quoted"), crlfInAttr
				}
				q := b[j]
				e := bytes.IndexByte(b[j+1:], q)
				if e < 0 {
					return items, append(wf, "fatal: unterminated attribute value"), crlfInAttr
				}
				raw := string(b[j+1 : j+1+e])
				if strings.Contains(raw, "<") {
					wf = append(wf, "< in attribute value")
				}
				if strings.Contains(raw, "\r\n") {
					crlfInAttr = true
				}
				if seen[an] {
					wf = append(wf, "duplicate attribute")
				}
				seen[an] = true
				it.attrs = append(it.attrs, c06Attr{an, raw})
				j += 1 + e + 1
			}
			if len(stack) == 0 {
				roots++
				if roots > 1 {
					wf = append(wf, "more than one root element")
				}
			}
			items = append(items, it)
			if void {
				items = append(items, c06Item{kind: 'E', name: name})
			} else {
				stack = append(stack, name)
			}
			i = j
		}
	}
	if len(stack) > 0 {
		wf = append(wf, "unclosed element")
	}
	if roots == 0 {
		wf = append(wf, "no root element")
	}
	return items, wf, crlfInAttr
}

// c06PI canonical form of PI data: pseudo-attributes `name = "value"` (white space between them and around `=`
// normalised, the literals byte for byte) when the data has that form, the raw data otherwise (ok=false).
func c06PI(data string, wf *[]string) (string, bool) {
	var sb strings.Builder
	i, n := 0, len(data)
	for {
		for i < n && c06IsS(data[i]) {
			i++
		}
		if i >= n {
			return sb.String(), true
		}
		k := i
		for i < n && !c06IsS(data[i]) && data[i] != '=' && data[i] != '"' && data[i] != '\'' {
			i++
		}
		name := data[k:i]
		for i < n && c06IsS(data[i]) {
			i++
		}
		if name == "" || i >= n || data[i] != '=' {
			return data, false
		}
		i++
		for i < n && c06IsS(data[i]) {
			i++
		}
		if i >= n || (data[i] != '"' && data[i] != '\'') {
			return data, false
		}
		q := data[i]
		e := strings.IndexByte(data[i+1:], q)
		if e < 0 {
			return data, false
		}
		// the data of a processing instruction has no references (XML 1.0 2.6) and since /repo 59fe76b the minifier does not
		// decode any there: the literal is compared byte for byte, quotes included
		sb.WriteString(" " + name + "=" + strconv.QuoteToASCII(data[i:i+1+e+1]))
		i += 1 + e + 1
		if i < n && !c06IsS(data[i]) {
			return data, false
		}
	}
}

// c06Ev is an event of the canonical stream: a character or a mark.
type c06Ev struct {
	ch    *c06Ch
	mark  string
	class byte // 't' element tag (start / end), 'n' neutral (attribute, PI, DOCTYPE)
}

func c06Events(items []c06Item, wf *[]string) []c06Ev {
	var evs []c06Ev
	for _, it := range items {
		switch it.kind {
		case 'S':
			evs = append(evs, c06Ev{mark: "S:" + it.name, class: 't'})
			for _, a := range it.attrs {
				evs = append(evs, c06Ev{mark: "A:" + a.name + "=" + c06ChStr(c06Decode(a.raw, true, wf)), class: 'n'})
			}
		case 'E':
			evs = append(evs, c06Ev{mark: "E", class: 't'})
		case 'P':
			s, okPI := c06PI(it.data, wf)
			if !okPI { // free-form PI data: the dependency lexer discards the white space before `?>`
				s = strings.TrimRight(s, " \t\r\n")
			}
			evs = append(evs, c06Ev{mark: "P:" + it.name + "|" + s, class: 'n'})
		case 'D':
			evs = append(evs, c06Ev{mark: "D:" + it.data, class: 'n'})
		case 'T':
			for _, c := range c06Decode(it.data, false, wf) {
				c := c
				evs = append(evs, c06Ev{ch: &c})
			}
		case 'C':
			var ig []string
			for _, c := range c06Decode(strings.ReplaceAll(it.data, "&", "&amp;"), false, &ig) {
				c := c
				evs = append(evs, c06Ev{ch: &c})
			}
		}
	}
	return evs
}

// c06Canon: canonical stream up to insignificant white space.  Every solid (non-white-space character, element
// tag) carries the bit "preceded by white space"; the bit is cleared next to a soft neighbour: the document
// boundaries always, element tags unless KeepWhitespace.  Neutral marks (attributes, PIs, DOCTYPE) carry no bit
// and are transparent for white space.  Equal canonical streams: same element structure, attributes, PIs,
// DOCTYPE, and per text run the same words in the same order with the same separations.
func c06Canon(evs []c06Ev, keep bool) []string {
	var out []string
	pend, prevSoft := false, true
	bit := func(b bool) string {
		if b {
			return "_"
		}
		return ""
	}
	for _, e := range evs {
		switch {
		case e.ch != nil:
			if e.ch.r == ' ' || e.ch.r == '\t' || e.ch.r == '\n' || e.ch.r == '\r' {
				pend = true
			} else {
				out = append(out, bit(pend && !prevSoft)+"c"+c06ChStr([]c06Ch{*e.ch}))
				pend, prevSoft = false, false
			}
		case e.class == 'n':
			out = append(out, e.mark)
		default:
			soft := !keep
			out = append(out, bit(pend && !prevSoft && !soft)+e.mark)
			pend, prevSoft = false, soft
		}
	}
	return out
}

// c06Compare returns the failing clauses (wf, struct, attr, pi, doctype, chars) with a short explanation.
func c06Compare(in, out []byte, keep bool) (clauses map[string]string, inputWF bool, crlf bool) {
	clauses = map[string]string{}
	iItems, iwf, crlf := c06Read(in)
	var iwf2 []string
	iEv := c06Events(iItems, &iwf2)
	if len(iwf)+len(iwf2) > 0 {
		return clauses, false, crlf
	}
	oItems, owf, _ := c06Read(out)
	oEv := c06Events(oItems, &owf)
	if len(owf) > 0 {
		clauses["wf"] = owf[0]
	}
	ic, oc := c06Canon(iEv, keep), c06Canon(oEv, keep)
	proj := func(c []string, f func(string) string) []string {
		var p []string
		for _, s := range c {
			if t := f(s); t != "" {
				p = append(p, t)
			}
		}
		return p
	}
	first := func(a, b []string) string {
		for k := 0; k < len(a) || k < len(b); k++ {
			x, y := "<end>", "<end>"
			if k < len(a) {
				x = a[k]
			}
			if k < len(b) {
				y = b[k]
			}
			if x != y {
				return fmt.Sprintf("at %d: input %s output %s", k, x, y)
			}
		}
		return ""
	}
	pick := func(prefix string) func(string) string {
		return func(s string) string {
			if strings.HasPrefix(strings.TrimPrefix(s, "_"), prefix) {
				return strings.TrimPrefix(s, "_")
			}
			return ""
		}
	}
	stru := func(s string) string {
		t := strings.TrimPrefix(s, "_")
		if strings.HasPrefix(t, "S:") || t == "E" {
			return t
		}
		return ""
	}
	if d := first(proj(ic, stru), proj(oc, stru)); d != "" {
		clauses["struct"] = d
	}
	if d := first(proj(ic, pick("A:")), proj(oc, pick("A:"))); d != "" {
		clauses["attr"] = d
	}
	if d := first(proj(ic, pick("P:")), proj(oc, pick("P:"))); d != "" {
		clauses["pi"] = d
	}
	if d := first(proj(ic, pick("D:")), proj(oc, pick("D:"))); d != "" {
		clauses["doctype"] = d
	}
	chars := func(s string) string { // characters with their bits, marks reduced to their kind
		t := strings.TrimPrefix(s, "_")
		if strings.HasPrefix(t, "c") {
			return s
		}
		return s[:len(s)-len(t)] + t[:1]
	}
	if d := first(proj(ic, chars), proj(oc, chars)); d != "" && clauses["struct"] == "" {
		clauses["chars"] = d
	}
	return clauses, true, crlf
}

// ---------- encoding/xml as a second opinion ----------

func c06GoStream(b []byte, keep bool) ([]string, error) {
	d := exml.NewDecoder(bytes.NewReader(b))
	d.Strict = true
	d.Entity = map[string]string{"e1": "e1", "ent.2": "ent.2", "nbsp": "nbsp"}
	d.CharsetReader = func(label string, input io.Reader) (io.Reader, error) { return input, nil }
	var evs []c06Ev
	for {
		t, err := d.Token()
		if err == io.EOF {
			break
		}
		if err != nil {
			return nil, err
		}
		switch t := t.(type) {
		case exml.StartElement:
			evs = append(evs, c06Ev{mark: "S:" + t.Name.Space + ":" + t.Name.Local, class: 't'})
			for _, a := range t.Attr {
				// encoding/xml does not apply the §3.3.3 normalisation (and cannot tell `&#10;` from a literal LF):
				// compare its values with TAB/LF/CR mapped to space; the exact comparison is c06Read's
				v := strings.NewReplacer("\t", " ", "\n", " ", "\r", " ").Replace(a.Value)
				evs = append(evs, c06Ev{mark: "A:" + a.Name.Space + ":" + a.Name.Local + "=" + strconv.QuoteToASCII(v), class: 'n'})
			}
		case exml.EndElement:
			evs = append(evs, c06Ev{mark: "E", class: 't'})
		case exml.CharData:
			for _, r := range string(t) {
				c := c06Ch{r: r}
				evs = append(evs, c06Ev{ch: &c})
			}
		case exml.ProcInst:
			var ig []string
			s, okPI := c06PI(string(t.Inst), &ig)
			if !okPI {
				s = strings.TrimRight(s, " \t\r\n")
			}
			evs = append(evs, c06Ev{mark: "P:" + t.Target + "|" + s, class: 'n'})
		case exml.Directive:
			evs = append(evs, c06Ev{mark: "D:" + string(t), class: 'n'})
		}
	}
	return c06Canon(evs, keep), nil
}

// ---------- known findings ----------

// signature (failing clauses) recorded for each trigger
var c06TrigClauses = map[string][]string{
	"attrCRLF": {"attr"},
	// behind such a `>` the lexer is in content mode: the rest of the data up to `?>` is text (white space collapsed and
	// trimmed, references decoded, `]]>` guarded, the white space in front of the PI judged by it) or even markup
	"piDataGt": {"pi", "chars", "wf"},
}

// c06PiDataGt: the dependency lexer delivers a StartTagClose / StartTagCloseVoid token between `<?target` and `?>`
// (a `>` or `/>` in the data of a processing instruction, which it reads like the end of a tag): trigger of K-C06-8
func c06PiDataGt(ts []c06Tok) bool {
	inPI := false
	for _, t := range ts {
		switch t.tt {
		case pxml.StartTagPIToken:
			inPI = true
		case pxml.StartTagClosePIToken:
			inPI = false
		case pxml.StartTagCloseToken, pxml.StartTagCloseVoidToken:
			if inPI {
				return true
			}
			inPI = false
		}
	}
	return false
}

type c06Case struct {
	src   []byte
	keep  bool
	toks  []c06Tok
	out   []byte
	otoks []c06Tok
	key   string
}

func c06Key(src []byte, keep bool) string {
	s := src
	if len(s) > 400 {
		s = s[:400]
	}
	return fmt.Sprintf("%s keep=%v", h.Q(s), keep)
}

// c06Judge evaluates model correspondence and the property oracles on a batch of cases.
func c06Judge(c *Ctx, st *h.Stage, cases []*c06Case) error {
	lines := make([]string, 0, 3*len(cases))
	for _, cs := range cases {
		g := c06Groups(cs.toks)
		lines = append(lines, "model.c06.minify "+h.Bool(cs.keep)+" "+g)
		lines = append(lines, "trig.c06 "+h.Bool(cs.keep)+" "+g)
		lines = append(lines, "spec.c06.holds "+h.Bool(cs.keep)+" "+g+" "+c06Groups(cs.otoks))
	}
	rep, err := h.Eval(lines)
	if err != nil {
		return err
	}
	for i, cs := range cases {
		// (a) correspondence
		got, ok, msg := h.DecodeReply(rep[3*i])
		diff := false
		if !ok {
			c.R.Add(h.Finding{Stage: st.Name, Kind: "diff", What: "model.c06.minify: model error " + msg, Input: cs.key, Hex: h.Hex(cs.src), Config: fmt.Sprint("keep=", cs.keep)})
			diff = true
		} else if !bytes.Equal(got, cs.out) {
			c06Diffs++
			if c06Diffs > 8 { // keep room in the report for failing inputs of the property itself
				goto afterDiff
			}
			c.R.Add(h.Finding{Stage: st.Name, Kind: "diff", What: "model.c06.minify", Input: cs.key, Hex: h.Hex(cs.src), Config: fmt.Sprint("keep=", cs.keep), Impl: h.Q(c06Clip(cs.out)), Model: h.Q(c06Clip(got))})
			diff = true
		}
	afterDiff:
		_ = diff
		// triggers
		trigs := map[string]bool{}
		if tb, ok, _ := h.DecodeReply(rep[3*i+1]); ok {
			for _, t := range h.DecodeListReply(tb) {
				trigs[string(t)] = true
			}
		} else {
			c.R.Add(h.Finding{Stage: st.Name, Kind: "diff", What: "trig.c06: driver error", Input: cs.key})
		}
		// (b) property on the real output: independent reader
		clauses, inWF, crlf := c06Compare(cs.src, cs.out, cs.keep)
		if crlf {
			trigs["attrCRLF"] = true
		}
		if c06PiDataGt(cs.toks) {
			trigs["piDataGt"] = true
		}
		nontriv := !bytes.Equal(cs.src, cs.out)
		st.Count(cs.key, nontriv)
		for _, f := range c06Features(cs.toks) {
			st.Tag(f)
		}
		if !inWF {
			st.Tag("input=not-wf(oracle skipped)")
			continue
		}
		st.Tag("input=wf")
		// (c) encoding/xml
		if gi, err := c06GoStream(cs.src, cs.keep); err == nil {
			st.Tag("encoding/xml=accepts-input")
			gout, err := c06GoStream(cs.out, cs.keep)
			if err != nil {
				if strings.Contains(err.Error(), "unescaped ]]>") && !bytes.Contains(c06CharData(cs.out), []byte("]]>")) {
					// encoding/xml also rejects `]]>` inside attribute values, where XML 1.0 allows it
					st.Tag("encoding/xml=rejects-]]>-in-attribute-value(ignored)")
				} else if _, dup := clauses["wf"]; !dup {
					clauses["wf"] = "encoding/xml rejects the output: " + err.Error()
				}
			} else if strings.Join(gi, "\x00") != strings.Join(gout, "\x00") {
				if len(clauses) == 0 {
					clauses["chars"] = "encoding/xml token streams differ"
					for k := 0; k < len(gi) && k < len(gout); k++ {
						if gi[k] != gout[k] {
							clauses["chars"] = fmt.Sprintf("encoding/xml token streams differ at %d: input %s output %s", k, gi[k], gout[k])
							if strings.HasPrefix(gi[k], "A:") {
								clauses["attr"] = clauses["chars"]
								delete(clauses, "chars")
							}
							break
						}
					}
				}
			}
		} else {
			st.Tag("encoding/xml=rejects-input")
		}
		// (d) Lean specification on the token lists
		if sb, ok, msg := h.DecodeReply(rep[3*i+2]); ok {
			for _, cl := range h.DecodeListReply(sb) {
				if _, dup := clauses[string(cl)]; !dup {
					clauses[string(cl)] = "spec.c06.holds clause " + string(cl)
				}
			}
		} else {
			c.R.Add(h.Finding{Stage: st.Name, Kind: "diff", What: "spec.c06.holds: driver error " + msg, Input: cs.key})
		}
		for t := range trigs {
			st.Tag("trigger=" + t)
		}
		if len(clauses) == 0 {
			st.Tag("property=holds")
			continue
		}
		// failing clauses: excluded when they are the recorded signature of a known finding whose trigger holds
		names := make([]string, 0, len(clauses))
		for k := range clauses {
			names = append(names, k)
		}
		sort.Strings(names)
		var unexplained []string
		known := ""
		for _, cl := range names {
			expl := false
			for t := range trigs {
				for _, kc := range c06TrigClauses[t] {
					if kc == cl && c06Open[t] != "" {
						expl = true
						known = c06Open[t]
					}
				}
			}
			if !expl {
				unexplained = append(unexplained, cl)
			}
		}
		if len(unexplained) == 0 {
			c.R.ExcludedKnown++
			st.Tag("property=fails-under-known-trigger(" + known + ")")
			continue
		}
		cl := unexplained[0]
		c.R.Add(h.Finding{Stage: st.Name, Kind: "fail", What: "xml infoset: clause " + cl + " fails on the real output (" + clauses[cl] + ")", Input: cs.key, Hex: h.Hex(cs.src),
			Config: fmt.Sprint("keep=", cs.keep), Impl: h.Q(c06Clip(cs.out))})
	}
	return nil
}

// c06CharData: the text items of a document (own reader), joined by NUL
func c06CharData(b []byte) []byte {
	items, _, _ := c06Read(b)
	var out []byte
	for _, it := range items {
		if it.kind == 'T' {
			out = append(out, it.data...)
		} else {
			out = append(out, 0)
		}
	}
	return out
}

func c06Clip(b []byte) []byte {
	if len(b) > 600 {
		return append(append([]byte{}, b[:600]...), "…"...)
	}
	return b
}

// trigger name → id of the open known finding
var c06Open = map[string]string{}

// number of model/implementation disagreements seen (only the first few are recorded individually)
var c06Diffs int

func c06Prepare(c *Ctx, st *h.Stage, src []byte, keep bool) *c06Case {
	out, err, crash := c06Minify(src, keep)
	key := c06Key(src, keep)
	if crash != "" {
		c.R.Add(h.Finding{Stage: st.Name, Kind: "crash", What: crash, Input: key, Hex: h.Hex(src), Config: fmt.Sprint("keep=", keep)})
		return nil
	}
	if err != nil {
		c.R.Add(h.Finding{Stage: st.Name, Kind: "fail", What: "xml.Minify returns an error on a document: " + err.Error(), Input: key, Hex: h.Hex(src)})
		return nil
	}
	return &c06Case{src: src, keep: keep, toks: c06Lex(src), out: out, otoks: c06Lex(out), key: key}
}

func init() {
	register("C06", func(c *Ctx) error {
		for _, k := range h.Known("C06") {
			if k.Status == "open" && k.Trigger != "" {
				c06Open[k.Trigger] = k.ID
			}
		}
		// ---- replay of a recorded failing input (./check C06 --replay file) ----
		if c.Replay != "" {
			if b, err := os.ReadFile(c.Replay); err == nil {
				var obj struct {
					Finding struct {
						Hex    string `json:"input_hex"`
						Config string `json:"config"`
					} `json:"finding"`
				}
				if json.Unmarshal(b, &obj) == nil && obj.Finding.Hex != "" {
					src, _ := hex.DecodeString(obj.Finding.Hex)
					st := c.R.StartStage("replay", "the recorded failing input, both KeepWhitespace settings")
					var cases []*c06Case
					for _, keep := range []bool{false, true} {
						if obj.Finding.Config != "" && obj.Finding.Config != fmt.Sprint("keep=", keep) {
							continue
						}
						if cs := c06Prepare(c, st, src, keep); cs != nil {
							cases = append(cases, cs)
						}
					}
					err := c06Judge(c, st, cases)
					st.End()
					return err
				}
			}
		}

		// ---- known findings: replay the exact inputs ----
		for _, k := range h.Known("C06") {
			in := k.ReplayStr("input")
			keep := k.Replay["keep"] == true
			if k.Status != "open" {
				continue
			}
			out, _, crash := c06Minify([]byte(in), keep)
			still := crash != ""
			obs := string(out)
			if crash == "" {
				clauses, _, _ := c06Compare([]byte(in), out, keep)
				if gi, err := c06GoStream([]byte(in), keep); err == nil {
					if gout, err := c06GoStream(out, keep); err != nil {
						clauses["wf"] = err.Error()
					} else if strings.Join(gi, "\x00") != strings.Join(gout, "\x00") && len(clauses) == 0 {
						clauses["chars"] = "encoding/xml"
					}
				}
				still = len(clauses) > 0
				if exp := k.ReplayStr("expected"); exp != "" && obs == exp {
					still = false
				}
			}
			c.R.AddKnown(k.ID, still, k.What, obs)
		}

		// ---- fixed regression corpus: xml_test.go shapes and earlier disagreements; must pass ----
		st := c.R.StartStage("fixed", "hand-written documents (every branch of the loop; earlier disagreements) x {keepWhitespace off,on}; model.c06.minify on the real lexer's tokens vs xml.Minify bytes; property oracles (own XML reader with attribute normalisation, encoding/xml, Lean spec.c06.holds) on the real output; non-trivial = output differs from input")
		fixed := []string{
			"<a>x</a>", "<A>x</A>", "<a><b>x\ny</b></a>", "<a> <![CDATA[ a ]]> </a>", "<a >a</a >", "<?xml  version=\"1.0\" ?><a/>",
			"<x></x>", "<x> </x>", "<x a=\"b\"></x>", "<x a=\"\"></x>", "<x a=\" a \n\r\t b \"/>", "<x a=\"&apos;b&quot;\"></x>",
			"<x a=\"&quot;&quot;'\"></x>", "<x a=\"&amp;&lt;&gt;\"></x>", "<x>&amp;&lt;&gt;</x>", "<x>&#38;&#038;&#60;</x>",
			"<!DOCTYPE foo SYSTEM \"Foo.dtd\"><foo/>", "<r>text <!--comment--> text</r>", "<r>text\n<!--comment-->\ntext</r>", "<x>\n<!--y-->\n</x>",
			"<r>cats  and \tdogs </r>", " <div> <i> test </i> <b> test </b> </div> ", "<r>text\n<!--comment-->text<!--comment--> text</r>",
			"<x> <?xml-stylesheet a=\"b\"?> </x>", "<x> <![CDATA[ x ]]> </x>", "<x> <![CDATA[ <<<<< ]]> </x>", "<a><![CDATA[ %d ]]></a>", "<a><![CDATA[ %d ]]><b/></a>",
			"<a>x<![CDATA[y]]> z</a>", "<a>x <b/> z</a>", "<a> <b> </b> </a>", "<a>x <!--c--> <b/></a>", "<a>&#32;x&#32;</a>",
			"<a b='x&#60;y \"'/>", "<a b=\"a &#38;#38; &#38;amp; b\"/>", "<a b=\"&quot;&apos;&apos;\"/>", "<a>&#xE9;&#233;&#x2028;&#x10000;</a>",
			"<!DOCTYPE a [ <!ENTITY e1 \"v\"> ]>\n<a>&e1;</a>", "<a>\n  <b>  x  y  </b>\n  <c/>\n</a>\n", "<a>x<![CDATA[ <&<&<& ]]>y</a>", "<a>x<![CDATA[<&<]]>y</a>",
			"<a>&lt;&amp;&gt;&quot;&apos;</a>", "<a>x &#10; y</a>", "<a><![CDATA[]]></a>", "<a>x <![CDATA[]]> z</a>", "<a>a]]<!--c-->b</a>", "<a b=\"&#x26;#60;\"/>",
			"<a b=\"x&#60;y &#38; z&#10;\"/>", "<a b=\"&#x9;&#xA;&#xD;&#9;&#38;#38;&#x26;&#x3c;q\" c='&#60;&#38;'/>", "<a>x <?pi a=\"1\"?> y</a>",
			// inputs of the findings fixed in /repo (604975d, 34fd522, 9a0c504, ce8fb25)
			"<a>x <![CDATA[y]]> z</a>", "<a><![CDATA[y]]>&#32;z</a>", "<a>x <![CDATA[y]]><?pi?> z</a>", "<a><b> </b></a>", "<a><b></b> <c> </c></a>",
			"<a>]]&gt;</a>", "<a>a ]]&gt; b<![CDATA[c]]]]><![CDATA[>d]]></a>", "<a>a]]<!--c-->>b</a>", "<a><![CDATA[<]]]]><![CDATA[>]]></a>",
			"<a><![CDATA[<<<<<]]]]><![CDATA[>]]>></a>", "<a>]]]>]>]]&#62;></a>", "<a>]]<![CDATA[]]>></a>", "<a>]]<b/>></a>",
			// shapes of the seeded changes C06-m4 / C06-m5: nine and more skipped tokens behind a trailing space; `]` `]` `>` in three tokens
			"<r>price: <!--1--><!--2--><!--3--><!--4--><!--5--><!--6--><!--7--><!--8--><!--9-->10 EUR</r>",
			"<r>see <?link href=\"a\" type=\"b\" media=\"c\" title=\"d\" rel=\"e\" lang=\"f\" id=\"g\"?>below</r>",
			"<r>a <!--1--><!--2--><!--3--><!--4--><!--5--><!--6--><!--7--><!--8--><!--9--><!--10--><![CDATA[b]]> <!--1--><?p a=\"1\" b=\"2\" c=\"3\" d=\"4\" e=\"5\" f=\"6\" g=\"7\" h=\"8\"?> c</r>",
			"<r><![CDATA[a]]]><![CDATA[]]]>&gt;b</r>", "<r>a]<![CDATA[]]]>&gt;b</r>", "<r>a]<!--c-->]<!--c-->&gt;b</r>", "<r><![CDATA[a]]]]><![CDATA[>b]]></r>",
			"<r>]<!--c-->]<![CDATA[]]>]<!--c-->><![CDATA[]]]]><![CDATA[>]]></r>", "<r>y<a> <?pi?>z</a></r>",
			// /repo 59fe76b: no references decoded inside a PI; a `>` / `/>` in PI data keeps a space in front of it (K-C09-Xml-1/5)
			"<?p x=\"?&gt;\"?><a/>", "<a><?x k=\"?&gt;\"?></a>", "<?p x=\"&quot;&lt;&amp;&#65;\" y='&apos;'?><a/>", "<r><?p >?></r>", "<?p ? >?><a/>", "<?p ? />?><a/>",
			"<?p a>b?><a/>", "<?p a/>b?><a/>", "<r>x <?p a=\"1\" > y  &#65; ?> z</r>", "<r><?p a >?><b></b></r>", "<r><?p > ]]>?></r>", "<r><b> <?php > ?></b></r>", "<r><?p > <b></b> ?></r>",
			"<?php echo \"x\"; ?><a/>", "<?php echo  \"a  b\";  ?><a/>", "<?pi a=\"1\"  free text?><a c=\"d\"/>", "<?pi a= ?><a/>", "<a>x <?pi a=\"1\"?>y</a>", "<a><b/> <c/></a>", "<a>&amp;&#35;60;</a>", "<a>&#38;lt;</a>",
		}
		var cases []*c06Case
		for _, f := range fixed {
			for _, keep := range []bool{false, true} {
				if cs := c06Prepare(c, st, []byte(f), keep); cs != nil {
					cases = append(cases, cs)
				}
			}
		}
		if err := c06Judge(c, st, cases); err != nil {
			return err
		}
		st.End()

		// ---- generated documents ----
		st = c.R.StartStage("generated", "seeded well-formed documents (mixed content, CDATA with markup characters and ]] fragments, both quote kinds, predefined/declared entities, decimal/hex references incl. TAB/LF/CR/</&/>/quotes, internal DTD subset, PIs, comments, whitespace-only text, nested empty elements) x {keepWhitespace off,on}; same comparisons as stage fixed; non-trivial = output differs from input")
		n := c.N(5000, 100000)
		if c.Search {
			n *= 4
		}
		cases = cases[:0]
		flush := func() error {
			err := c06Judge(c, st, cases)
			cases = cases[:0]
			return err
		}
		for i := 0; i < n; i++ {
			r := c.Rng.Fork()
			doc := []byte(c06Doc(r, c.Thorough()))
			for _, keep := range []bool{false, true} {
				if cs := c06Prepare(c, st, doc, keep); cs != nil {
					cases = append(cases, cs)
				}
			}
			if len(cases) >= 20000 {
				if err := flush(); err != nil {
					return err
				}
			}
		}
		if err := flush(); err != nil {
			return err
		}
		st.End()

		// ---- dense documents: long skipped runs, character data cut into many tokens, edges of attribute values, long names ----
		st = c.R.StartStage("dense", "seeded documents built around token boundaries (c06_dense.go): runs of 0-40 (rarely up to 300) tokens that the trailing-space look-ahead skips (comments, PIs with 0-12 pseudo-attributes, DOCTYPE in the prolog) and empty CDATA between pieces of character data with all four combinations of white space at the boundary; one logical string of character data (`]`, `]]`, `>`, `]]>`, CR LF, `&`/`<` before name characters, words) cut at random positions into 1-6 text/CDATA tokens, each character literally or as a reference; attribute values with quotes/references/white space first and last; names, values, words, comments, CDATA of 31-5000 bytes; 3 % with character data outside the root element (correspondence only) x {keepWhitespace off,on}; same comparisons as stage fixed; the distribution counts, per measured shape of the real lexer's token list, the cases that contain it; non-trivial = output differs from input")
		nd := c.N(6000, 120000)
		if c.Search {
			nd *= 4
		}
		cases = cases[:0]
		for i := 0; i < nd; i++ {
			r := c.Rng.Fork()
			doc := []byte(c06DenseDoc(r))
			for _, keep := range []bool{false, true} {
				if cs := c06Prepare(c, st, doc, keep); cs != nil {
					cases = append(cases, cs)
				}
			}
			if len(cases) >= 20000 {
				if err := flush(); err != nil {
					return err
				}
			}
		}
		if err := flush(); err != nil {
			return err
		}
		st.End()

		// ---- corpus and benchmark files ----
		st = c.R.StartStage("corpus", "/repo/tests/xml/corpus/* and /repo/_benchmarks/*.xml x {keepWhitespace off,on}; same comparisons; non-trivial = output differs from input")
		var files []string
		for _, pat := range []string{"tests/xml/corpus/*", "_benchmarks/*.xml"} {
			m, _ := filepath.Glob(filepath.Join(c.Repo, pat))
			sort.Strings(m)
			files = append(files, m...)
		}
		cases = cases[:0]
		for _, f := range files {
			b, err := os.ReadFile(f)
			if err != nil {
				continue
			}
			if len(b) > 600000 && !c.Thorough() && !c.Search {
				c.R.Note("corpus file %s (%d bytes) only in the thorough tier", f, len(b))
				continue
			}
			for _, keep := range []bool{false, true} {
				if cs := c06Prepare(c, st, b, keep); cs != nil {
					cs.key = fmt.Sprintf("file %s keep=%v", strings.TrimPrefix(f, c.Repo+"/"), keep)
					cases = append(cases, cs)
				}
			}
		}
		if err := c06Judge(c, st, cases); err != nil {
			return err
		}
		st.End()
		if c06Diffs > 8 {
			c.R.Note("%d model/implementation disagreements in total (first 8 recorded)", c06Diffs)
		}
		return nil
	})
}

package main

// C10 — totality.
//  stage buffer-scripts: random Peek/Shift/Attributes scripts on the REAL html/svg/xml TokenBuffers over lexed
//        documents vs the index-faithful Lean model (Model.TokenBuffer); a panic in the real buffer is a failing input.
//  stage bytes-wrapper:  m.Bytes / m.String on valid and invalid documents: on error the returned data and the caller's
//        slice must equal the original; the Lean wrapper model is evaluated with the observed minifier behaviour.
//  stage totality-sweep: every minifier and exported helper on mutated corpus / generated / hostile inputs under
//        recover + timeout, with a generous time-per-byte bound; deep nesting in a subprocess (a Go stack overflow is fatal).

import (
	"bytes"
	"fmt"
	"os"
	"os/exec"
	"path/filepath"
	"regexp"
	"sort"
	"strconv"
	"strings"
	"time"
	"unsafe"

	"github.com/tdewolff/minify/v2"
	mincss "github.com/tdewolff/minify/v2/css"
	minhtml "github.com/tdewolff/minify/v2/html"
	minjs "github.com/tdewolff/minify/v2/js"
	minjson "github.com/tdewolff/minify/v2/json"
	minsvg "github.com/tdewolff/minify/v2/svg"
	minxml "github.com/tdewolff/minify/v2/xml"
	"github.com/tdewolff/parse/v2"
	phtml "github.com/tdewolff/parse/v2/html"
	pxml "github.com/tdewolff/parse/v2/xml"

	"verifharness/h"
)

type c10RefTok struct {
	off    int
	isErr  bool
	isAttr bool
	text   string
}

func c10Off(base, sub []byte) int {
	if sub == nil {
		return -1
	}
	return int(uintptr(unsafe.Pointer(unsafe.SliceData(sub))) - uintptr(unsafe.Pointer(unsafe.SliceData(base))))
}

// reference token stream of a document (fresh lexer over a private copy)
func c10Ref(kind string, data []byte) (ref []c10RefTok, ok bool) {
	z := parse.NewInputBytes(append([]byte(nil), data...))
	defer z.Restore()
	base := z.Bytes()
	seen := map[int]bool{}
	if kind == "html" {
		l := phtml.NewLexer(z)
		for i := 0; i < 100000; i++ {
			tt, d := l.Next()
			if tt == phtml.ErrorToken {
				ref = append(ref, c10RefTok{isErr: true})
				return ref, true
			}
			off := c10Off(base, d)
			if off < 0 || off > len(base) || seen[off] {
				return nil, false
			}
			seen[off] = true
			ref = append(ref, c10RefTok{off: off, isAttr: tt == phtml.AttributeToken, text: string(l.Text())})
		}
		return nil, false
	}
	l := pxml.NewLexer(z)
	for i := 0; i < 100000; i++ {
		tt, d := l.Next()
		if tt == pxml.ErrorToken {
			ref = append(ref, c10RefTok{isErr: true})
			return ref, true
		}
		off := c10Off(base, d)
		if off < 0 || off > len(base) || seen[off] {
			return nil, false
		}
		seen[off] = true
		ref = append(ref, c10RefTok{off: off, isAttr: tt == pxml.AttributeToken, text: string(l.Text())})
	}
	return nil, false
}

type c10Buf interface {
	peek(i int) (off int, isErr bool)
	shift() (off int, isErr bool)
	attrs(names []string) []int // offsets (or -1 for nil)
}

type c10HTML struct {
	tb   *minhtml.TokenBuffer
	base []byte
}

func (b *c10HTML) peek(i int) (int, bool) {
	t := b.tb.Peek(i)
	return c10Off(b.base, t.Data), t.TokenType == phtml.ErrorToken
}
func (b *c10HTML) shift() (int, bool) {
	t := b.tb.Shift()
	return c10Off(b.base, t.Data), t.TokenType == phtml.ErrorToken
}
func (b *c10HTML) attrs(names []string) []int {
	hs := make([]minhtml.Hash, len(names))
	for i, n := range names {
		hs[i] = minhtml.ToHash([]byte(n))
	}
	var out []int
	for _, t := range b.tb.Attributes(hs...) {
		if t == nil {
			out = append(out, -1)
		} else {
			out = append(out, c10Off(b.base, t.Data))
		}
	}
	return out
}

type c10SVG struct {
	tb   *minsvg.TokenBuffer
	base []byte
}

func (b *c10SVG) peek(i int) (int, bool) {
	t := b.tb.Peek(i)
	return c10Off(b.base, t.Data), t.TokenType == pxml.ErrorToken
}
func (b *c10SVG) shift() (int, bool) {
	t := b.tb.Shift()
	return c10Off(b.base, t.Data), t.TokenType == pxml.ErrorToken
}
func (b *c10SVG) attrs(names []string) []int {
	hs := make([]minsvg.Hash, len(names))
	for i, n := range names {
		hs[i] = minsvg.ToHash([]byte(n))
	}
	var out []int
	for _, t := range b.tb.Attributes(hs...) {
		if t == nil {
			out = append(out, -1)
		} else {
			out = append(out, c10Off(b.base, t.Data))
		}
	}
	return out
}

type c10XML struct {
	tb   *minxml.TokenBuffer
	base []byte
}

func (b *c10XML) peek(i int) (int, bool) {
	t := b.tb.Peek(i)
	return c10Off(b.base, t.Data), t.TokenType == pxml.ErrorToken
}
func (b *c10XML) shift() (int, bool) {
	t := b.tb.Shift()
	return c10Off(b.base, t.Data), t.TokenType == pxml.ErrorToken
}
func (b *c10XML) attrs(names []string) []int { return nil }

func c10Docs(c *Ctx, r *h.RNG) (string, []byte) {
	kind := []string{"html", "svg", "xml"}[r.Intn(3)]
	tags := []string{"p", "div", "a", "b", "svg", "g", "path", "br", "img", "td", "x"}
	attrs := []string{"id", "class", "style", "href", "d", "x", "width", "type", "name"}
	var sb strings.Builder
	n := r.Intn(12)
	if r.Chance(8) {
		n = 40 + r.Intn(60)
	}
	for i := 0; i < n; i++ {
		switch r.Intn(6) {
		case 0, 1:
			sb.WriteString("<" + r.Pick(tags))
			na := r.Intn(4)
			if r.Chance(10) {
				na = 10 + r.Intn(30)
			}
			for j := 0; j < na; j++ {
				sb.WriteString(" " + r.Pick(attrs))
				if r.Chance(80) {
					sb.WriteString("=" + r.Pick([]string{`"v"`, `'w'`, `u`, `""`, `" a &amp; b "`}))
				}
			}
			sb.WriteString(r.Pick([]string{">", "/>", ">", " >"}))
		case 2:
			sb.WriteString("</" + r.Pick(tags) + ">")
		case 3:
			sb.WriteString(r.Pick([]string{"text", " ", "a &lt; b", "\n  ", "x y"}))
		case 4:
			sb.WriteString(r.Pick([]string{"<!-- c -->", "<![CDATA[ d ]]>", "<?pi x?>", "<!DOCTYPE html>"}))
		case 5:
			sb.WriteString(r.Pick([]string{"<", "<a", "</", "<a b=\"", "&"}))
		}
	}
	return kind, []byte(sb.String())
}

func c10BufferScripts(c *Ctx) error {
	st := c.R.StartStage("buffer-scripts", "generated html/svg/xml documents (incl. truncated/malformed tails, tags with up to 40 attributes) lexed by the real lexer; random scripts of Peek(i) (i up to 45, forcing reallocation), Shift and Attributes(...) calls, continuing past the error token, on the REAL TokenBuffer vs Model.TokenBuffer; tokens identified by their data offset; non-trivial = script reallocates or reaches the error token")
	n := c.N(4000, 120000)
	type item struct {
		key      string
		line     string
		want     string
		nontriv  bool
		attrFail string
	}
	var items []item
	for k := 0; k < n; k++ {
		r := c.Rng.Fork()
		kind, data := c10Docs(c, r)
		ref, ok := c10Ref(map[string]string{"html": "html", "svg": "xml", "xml": "xml"}[kind], data)
		if !ok {
			continue
		}
		E := len(ref) - 1
		idOf := map[int]int{}
		for i, t := range ref {
			if !t.isErr {
				idOf[t.off] = i
			}
		}
		// build the script
		var ops []string  // model ops
		var real []string // real ops: "p3", "s", "A" (attributes)
		cursor := 0       // logical position
		nops := 1 + r.Intn(50)
		nontriv := false
		attrNames := [][]string{{"id", "class"}, {"style"}, {"href", "d", "x", "id"}, {"nope"}}
		var attrSets [][]string
		for j := 0; j < nops; j++ {
			switch x := r.Intn(10); {
			case x < 4:
				i := r.Intn(6)
				if r.Chance(10) {
					i = 8 + r.Intn(38)
					nontriv = true
				}
				ops = append(ops, "p"+strconv.Itoa(i))
				real = append(real, "p"+strconv.Itoa(i))
				if cursor+i >= E {
					nontriv = true
				}
			case x < 9 || kind == "xml":
				ops = append(ops, "s")
				real = append(real, "s")
				cursor++
			default:
				// Attributes: the real code peeks 0..n where n = run of attribute tokens at the cursor
				nrun := 0
				for cursor+nrun < E && ref[cursor+nrun].isAttr {
					nrun++
				}
				for q := 0; q <= nrun; q++ {
					ops = append(ops, "p"+strconv.Itoa(q))
				}
				real = append(real, "A"+strconv.Itoa(len(attrSets)))
				var names []string // only names known to the package's hash table (callers never pass Hash 0)
				for _, nm := range attrNames[r.Intn(len(attrNames))] {
					if c10HashEq(kind, nm, nm) {
						names = append(names, nm)
					}
				}
				attrSets = append(attrSets, names)
			}
		}
		// run the real buffer
		var got []string
		attrFail := ""
		crash := h.Safely(20*time.Second, func() {
			z := parse.NewInputBytes(append([]byte(nil), data...))
			defer z.Restore()
			var b c10Buf
			switch kind {
			case "html":
				b = &c10HTML{minhtml.NewTokenBuffer(z, phtml.NewLexer(z)), z.Bytes()}
			case "svg":
				b = &c10SVG{minsvg.NewTokenBuffer(z, pxml.NewLexer(z)), z.Bytes()}
			default:
				b = &c10XML{minxml.NewTokenBuffer(pxml.NewLexer(z)), z.Bytes()}
			}
			cur := 0
			id := func(off int, isErr bool) string {
				if isErr {
					return strconv.Itoa(E)
				}
				if v, ok := idOf[off]; ok {
					return strconv.Itoa(v)
				}
				return "?" + strconv.Itoa(off)
			}
			for _, op := range real {
				switch op[0] {
				case 'p':
					i, _ := strconv.Atoi(op[1:])
					got = append(got, id(b.peek(i)))
				case 's':
					got = append(got, id(b.shift()))
					cur++
				case 'A':
					ai, _ := strconv.Atoi(op[1:])
					names := attrSets[ai]
					res := b.attrs(names)
					// reference: last attribute in the run with that name (case-insensitive hash of the lexer text)
					nrun := 0
					for cur+nrun < E && ref[cur+nrun].isAttr {
						nrun++
					}
					for q := 0; q <= nrun; q++ { // the peeks it performed
						t := cur + q
						if t > E {
							t = E
						}
						got = append(got, strconv.Itoa(t))
					}
					for ni, name := range names {
						want := -1
						for q := 0; q < nrun; q++ {
							if c10HashEq(kind, ref[cur+q].text, name) {
								want = ref[cur+q].off
							}
						}
						if ni < len(res) && res[ni] != want && attrFail == "" {
							attrFail = fmt.Sprintf("Attributes(%v)[%d] = token@%d, expected token@%d", names, ni, res[ni], want)
						}
					}
				}
			}
		})
		want := strings.Join(got, ",")
		if crash != "" {
			want = "panic"
		}
		key := fmt.Sprintf("%s doc=%q script=%s", kind, string(data), strings.Join(real, " "))
		items = append(items, item{key, "model.c10.script " + h.Int(int64(E)) + " " + h.ListS(ops), want, nontriv, attrFail})
		if crash != "" {
			c.R.Add(h.Finding{Stage: st.Name, Kind: "fail", What: "look-ahead buffer panicked: " + crash, Input: key})
		}
	}
	lines := make([]string, len(items))
	for i := range items {
		lines[i] = items[i].line
	}
	rep, err := h.Eval(lines)
	if err != nil {
		return err
	}
	for i, it := range items {
		st.Count(it.key, it.nontriv)
		b, ok, msg := h.DecodeReply(rep[i])
		if !ok {
			c.R.Add(h.Finding{Stage: st.Name, Kind: "diff", What: "model error " + msg, Input: it.key})
			continue
		}
		if string(b) != it.want {
			kind := "diff"
			what := "token buffer returns different tokens than the model (a plain cursor over the stream)"
			if it.want != "panic" && string(b) != "panic" {
				// the model is proved equal to the cursor semantics: a difference means the real buffer returned a wrong token
				kind = "fail"
				what = "look-ahead buffer returned a token that is not stream[cursor+i]"
			}
			c.R.Add(h.Finding{Stage: st.Name, Kind: kind, What: what, Input: it.key, Impl: it.want, Model: string(b)})
		}
		if it.attrFail != "" {
			c.R.Add(h.Finding{Stage: st.Name, Kind: "fail", What: "Attributes returned the wrong token: " + it.attrFail, Input: it.key})
		}
	}
	st.End()
	return nil
}

func c10HashEq(kind, a, b string) bool {
	if kind == "html" {
		return minhtml.ToHash([]byte(a)) == minhtml.ToHash([]byte(b)) && minhtml.ToHash([]byte(b)) != 0
	}
	return minsvg.ToHash([]byte(a)) == minsvg.ToHash([]byte(b)) && minsvg.ToHash([]byte(b)) != 0
}

func c10Registry() *minify.M {
	m := minify.New()
	m.AddFunc("text/css", mincss.Minify)
	m.AddFunc("text/html", minhtml.Minify)
	m.AddFunc("image/svg+xml", minsvg.Minify)
	m.AddFunc("application/javascript", minjs.Minify)
	m.AddFunc("application/json", minjson.Minify)
	m.AddFunc("text/xml", minxml.Minify)
	return m
}

var c10Types = []string{"text/html", "text/css", "application/javascript", "application/json", "image/svg+xml", "text/xml"}

func c10Corpus(repo string, maxBytes int) map[string][][]byte {
	out := map[string][][]byte{}
	dirs := map[string]string{"html": "text/html", "css": "text/css", "js": "application/javascript", "json": "application/json", "svg": "image/svg+xml", "xml": "text/xml"}
	for d, mt := range dirs {
		files, _ := filepath.Glob(filepath.Join(repo, "tests", d, "corpus", "*"))
		sort.Strings(files)
		for _, f := range files {
			if b, err := os.ReadFile(f); err == nil && len(b) > 0 && len(b) <= maxBytes {
				out[mt] = append(out[mt], b)
			}
		}
	}
	seeds := map[string][]string{
		"text/html":              {`<!doctype html><html><head><title>T</title><style>a{color:red}</style><script>var a = 1;</script></head><body><p class="x y">Hello <b>w</b> &amp; <a href="http://x/y?a=1&amp;b=2">l</a></p><pre> a  b </pre><svg><path d="M0 0L1 1z"/></svg></body></html>`},
		"text/css":               {`@import "a.css";@media (min-width:100px){a:hover>b.c#d[e="f"]{margin:0px 0px;color:#ff0000;background:url("x.png") no-repeat 0% 0%;font:bold 12px/1 "Arial",sans-serif}}`},
		"application/javascript": {"function f(a,b){if(a){return b+1}else{return `x${a}`}}var x=/re/g.test('s')?1e3:0x10;for(let i=0;i<3;i++){x+=i}class A{#p=1;static m(){}}"},
		"application/json":       {`{"a":[1.0e2,true,null,"sA"],"b":{"c":-0.0}}`},
		"image/svg+xml":          {`<?xml version="1.0"?><svg xmlns="http://www.w3.org/2000/svg" width="10px"><g fill="#FF0000"><path d="M 10,10 L 20 20 A 5 5 0 0 1 30 30 z"/></g><style>a{b:c}</style></svg>`},
		"text/xml":               {`<?xml version="1.0"?><!DOCTYPE a [<!ENTITY x "y">]><a b="c &amp; d"><![CDATA[ x < y ]]> <e> t </e><f></f></a>`},
	}
	for mt, ss := range seeds {
		for _, s := range ss {
			out[mt] = append(out[mt], []byte(s))
		}
	}
	return out
}

func c10Mutate(r *h.RNG, b []byte, pool [][]byte) []byte {
	out := append([]byte(nil), b...)
	nm := 1 + r.Intn(4)
	for i := 0; i < nm && len(out) > 0; i++ {
		p := r.Intn(len(out))
		switch r.Intn(8) {
		case 0: // truncate
			out = out[:p]
		case 1: // delete span
			q := p + r.Intn(16)
			if q > len(out) {
				q = len(out)
			}
			out = append(out[:p], out[q:]...)
		case 2: // flip byte
			out[p] ^= byte(1 << uint(r.Intn(8)))
		case 3: // insert hostile byte
			hb := []byte{0, 0xff, 0xc0, '<', '>', '"', '\'', '\\', '&', '{', '}', '(', ')', '[', ']', '/', '*', '`', '$', '\n'}
			out = append(out[:p], append([]byte{hb[r.Intn(len(hb))]}, out[p:]...)...)
		case 4: // duplicate span
			q := p + r.Intn(32)
			if q > len(out) {
				q = len(out)
			}
			out = append(out[:q], append(append([]byte(nil), out[p:q]...), out[q:]...)...)
		case 5: // splice from another document
			o := pool[r.Intn(len(pool))]
			if len(o) > 0 {
				a := r.Intn(len(o))
				bb := a + r.Intn(64)
				if bb > len(o) {
					bb = len(o)
				}
				out = append(out[:p], append(append([]byte(nil), o[a:bb]...), out[p:]...)...)
			}
		case 6: // repeat a byte many times (nesting)
			k := 50 + r.Intn(400)
			out = append(out[:p], append(bytes.Repeat(out[p:p+1], k), out[p:]...)...)
		case 7: // replace digit run by huge number
			out = append(out[:p], append([]byte("99999999999999999999e-99999999999"), out[p:]...)...)
		}
	}
	return out
}

func c10BytesWrapper(c *Ctx) error {
	st := c.R.StartStage("bytes-wrapper", "m.Bytes / m.String for all six media types on corpus documents and mutations of them (so that many calls fail: JS/CSS syntax errors inside HTML, truncated JSON, …): on error the returned data and the caller's own slice must be byte-identical to the original; on success the caller's slice must be untouched too; Model.Api.bytesCall evaluated on the observed behaviour; non-trivial = the call returned an error")
	m := c10Registry()
	corpus := c10Corpus(c.Repo, 60000)
	var pool [][]byte
	for _, mt := range c10Types { // fixed order: every random choice must replay exactly
		pool = append(pool, corpus[mt]...)
	}
	n := c.N(1500, 40000)
	var lines []string
	type item struct {
		key         string
		ret, caller []byte
	}
	var items []item
	for k := 0; k < n; k++ {
		r := c.Rng.Fork()
		mt := c10Types[r.Intn(len(c10Types))]
		docs := corpus[mt]
		doc := docs[r.Intn(len(docs))]
		if r.Chance(75) {
			doc = c10Mutate(r, doc, pool)
		}
		if mt == "text/html" && r.Chance(20) {
			doc = append(append([]byte(nil), doc...), []byte("<script>{</script>")...)
		}
		orig := append([]byte(nil), doc...)
		caller := append(make([]byte, 0, len(doc)+8), doc...) // spare capacity: NewInputBytes' NUL trick must not leak either
		var out []byte
		var err error
		crash := h.Safely(30*time.Second, func() { out, err = m.Bytes(mt, caller) })
		key := fmt.Sprintf("%s %s", mt, h.Q(trunc(orig, 300)))
		if crash != "" {
			c.R.Add(h.Finding{Stage: st.Name, Kind: "crash", What: "m.Bytes: " + crash, Input: key, Hex: h.Hex(orig)})
			continue
		}
		st.Count(key, err != nil)
		if !bytes.Equal(caller, orig) || (cap(caller) > len(caller) && caller[:len(caller)+1][len(caller)] != 0) {
			what := "m.Bytes modified the caller's slice"
			if err != nil {
				what = "m.Bytes reported an error and the caller's original data is changed"
			}
			c.R.Add(h.Finding{Stage: st.Name, Kind: "fail", What: what, Input: key, Hex: h.Hex(orig), Impl: h.Q(trunc(caller, 300))})
			continue
		}
		if err != nil && !bytes.Equal(out, orig) {
			c.R.Add(h.Finding{Stage: st.Name, Kind: "fail", What: "m.Bytes reported an error but did not return the original data", Input: key, Hex: h.Hex(orig), Impl: h.Q(trunc(out, 300))})
			continue
		}
		sOut, sErr := "", error(nil)
		crash = h.Safely(30*time.Second, func() { sOut, sErr = m.String(mt, string(orig)) })
		if crash != "" {
			c.R.Add(h.Finding{Stage: st.Name, Kind: "crash", What: "m.String: " + crash, Input: key, Hex: h.Hex(orig)})
			continue
		}
		if (sErr != nil) != (err != nil) || (sErr != nil && sOut != string(orig)) || (sErr == nil && sOut != string(out)) {
			c.R.Add(h.Finding{Stage: st.Name, Kind: "fail", What: "m.String disagrees with m.Bytes or does not return the original on error", Input: key, Hex: h.Hex(orig), Impl: h.Q(trunc([]byte(sOut), 300))})
			continue
		}
		// model: the minifier scribbled on its private copy; what the wrapper hands back
		if len(orig) <= 4000 {
			isErr := err != nil
			o := out
			if isErr {
				o = nil
			}
			lines = append(lines, "model.c10.bytes "+h.HexS("copy")+" "+h.Hex(orig)+" "+h.Hex(orig)+" "+h.Bool(isErr)+" "+h.Hex(o))
			items = append(items, item{key, append([]byte(nil), out...), append([]byte(nil), caller...)})
		}
	}
	rep, err := h.Eval(lines)
	if err != nil {
		return err
	}
	for i, it := range items {
		b, ok, msg := h.DecodeReply(rep[i])
		got := h.DecodeListReply(b)
		if !ok || len(got) != 2 || !bytes.Equal(got[0], it.ret) || !bytes.Equal(got[1], it.caller) {
			c.R.Add(h.Finding{Stage: st.Name, Kind: "diff", What: "model.c10.bytes " + msg, Input: it.key})
		}
	}
	st.End()
	return nil
}

func trunc(b []byte, n int) []byte {
	if len(b) > n {
		return b[:n]
	}
	return b
}

var c10EntityRunRe = regexp.MustCompile(`^(&[#A-Za-z0-9]+;)+$`)
var c10VarRunRe = regexp.MustCompile(`^var [a-z]+;$`)
var c10OpenKnown = map[string]bool{}

func c10Sweep(c *Ctx) error {
	for _, k := range h.Known("C10") {
		if k.Status == "open" {
			c10OpenKnown[k.ID] = true
		}
	}
	st := c.R.StartStage("totality-sweep", "all six minifiers (default and non-default options, precisions -1..30) and exported helpers (Number, Decimal, Mediatype, DataURI, svg ShortenPathData via documents) on corpus documents and byte-level mutations / splices / truncations / non-UTF-8 insertions, under recover with a 30 s timeout per call and a time bound of 5 s + 2 ms/byte; deep nesting (200 000 levels of every bracket kind) in a subprocess; non-trivial = mutated input")
	corpus := c10Corpus(c.Repo, 200000)
	var pool [][]byte
	for _, mt := range c10Types { // fixed order: every random choice must replay exactly
		pool = append(pool, corpus[mt]...)
	}
	n := c.N(2500, 80000)
	for k := 0; k < n; k++ {
		r := c.Rng.Fork()
		mt := c10Types[r.Intn(len(c10Types))]
		docs := corpus[mt]
		doc := docs[r.Intn(len(docs))]
		mutated := r.Chance(85)
		if mutated {
			doc = c10Mutate(r, doc, pool)
		}
		if len(doc) > 100000 && !c.Thorough() {
			doc = doc[:100000]
		}
		prec := []int{0, 0, 0, -1, 1, 3, 17, 30}[r.Intn(8)]
		m := minify.New()
		m.Add("text/css", &mincss.Minifier{Precision: prec, KeepCSS2: r.Bool()})
		m.Add("text/html", &minhtml.Minifier{KeepComments: r.Bool(), KeepDefaultAttrVals: r.Bool(), KeepDocumentTags: r.Bool(), KeepEndTags: r.Bool(), KeepQuotes: r.Bool(), KeepWhitespace: r.Bool(), KeepSpecialComments: r.Bool()})
		m.Add("image/svg+xml", &minsvg.Minifier{Precision: prec, KeepComments: r.Bool()})
		m.Add("application/javascript", &minjs.Minifier{Precision: prec, KeepVarNames: r.Bool(), Version: []int{0, 5, 2015, 2019, 2020, 2022}[r.Intn(6)]})
		m.Add("application/json", &minjson.Minifier{Precision: prec, KeepNumbers: r.Bool()})
		m.Add("text/xml", &minxml.Minifier{KeepWhitespace: r.Bool()})
		in := append([]byte(nil), doc...)
		t0 := time.Now()
		crash := h.Safely(30*time.Second, func() {
			var w bytes.Buffer
			_ = m.Minify(mt, &w, bytes.NewReader(in))
		})
		el := time.Since(t0)
		key := fmt.Sprintf("%s prec=%d %s", mt, prec, h.Q(trunc(doc, 200)))
		st.Count(key, mutated)
		st.Tag(mt)
		if crash != "" {
			c.R.Add(h.Finding{Stage: st.Name, Kind: "fail", What: "minifier " + crash, Input: key, Hex: h.Hex(doc), Config: fmt.Sprintf("prec=%d", prec)})
		} else if el > 5*time.Second+time.Duration(len(doc))*2*time.Millisecond {
			c.R.Add(h.Finding{Stage: st.Name, Kind: "fail", What: fmt.Sprintf("minifier took %v for %d bytes (bound 5 s + 2 ms/byte)", el, len(doc)), Input: key, Hex: h.Hex(doc)})
		}
		// helpers on fragments of the document
		if len(doc) > 0 {
			p := r.Intn(len(doc))
			q := p + r.Intn(40)
			if q > len(doc) {
				q = len(doc)
			}
			frag := append([]byte(nil), doc[p:q]...)
			hc := h.Safely(10*time.Second, func() {
				minify.Mediatype(append([]byte(nil), frag...))
				minify.DataURI(m, append([]byte("data:"), frag...))
				minify.DataURI(m, append([]byte(nil), frag...))
			})
			if hc != "" {
				c.R.Add(h.Finding{Stage: st.Name, Kind: "fail", What: "helper (Mediatype/DataURI) " + hc, Input: h.Q(frag), Hex: h.Hex(frag)})
			}
		}
	}
	// boundary values: every prefix (and a few case/space variants) of strings that the minifiers index into, placed
	// into every kind of slot — length-guard off-by-ones only show on inputs of exactly the guarded length
	bnd := 0
	hangs := 0
	runB := func(mt, doc string) {
		if hangs >= 3 {
			return // every hung call keeps a goroutine spinning: three witnesses are enough
		}
		in := []byte(doc)
		crash := h.Safely(5*time.Second, func() {
			m := c10Registry()
			var w bytes.Buffer
			_ = m.Minify(mt, &w, bytes.NewReader(in))
		})
		if strings.Contains(crash, "timeout") || strings.Contains(crash, "timed out") {
			hangs++
		}
		bnd++
		st.Count("boundary "+mt+" "+doc, true)
		st.Tag("boundary")
		if crash != "" {
			c.R.Add(h.Finding{Stage: st.Name, Kind: "fail", What: "minifier " + crash, Input: mt + " " + h.Q([]byte(doc)), Hex: h.Hex([]byte(doc))})
		}
	}
	prefixes := func(ss ...string) []string {
		seen := map[string]bool{}
		var out []string
		add := func(x string) {
			if !seen[x] {
				seen[x] = true
				out = append(out, x)
			}
		}
		for _, s0 := range ss {
			for i := 0; i <= len(s0); i++ {
				add(s0[:i])
				add(strings.ToUpper(s0[:i]))
			}
		}
		return out
	}
	urlVals := prefixes("https://x.y/z", "http://x.y/z", "data:text/css;base64,YQ==", "data:,x%20y", "javascript:f()", "//x", "#a")
	typeVals := prefixes("text/javascript; charset=utf-8", "text/css", "module", "application/ld+json", "text/html;charset=utf-8", "radio", "submit")
	for _, tag := range []string{"a", "img", "link", "script", "form", "input", "meta", "iframe", "object", "base", "style", "button", "td", "area", "svg", "p"} {
		for _, attr := range []string{"href", "src", "action", "data", "style", "onclick", "type", "content", "http-equiv", "name", "charset", "value", "id", "class", "media", "method", "colspan", "xmlns"} {
			vals := urlVals
			if attr == "type" || attr == "content" || attr == "http-equiv" || attr == "method" || attr == "media" || attr == "name" {
				vals = typeVals
			}
			step := 1
			if !c.Thorough() && !(attr == "href" || attr == "src" || attr == "type" || attr == "content") {
				step = 5
			}
			for i := 0; i < len(vals); i += step {
				v := vals[i]
				runB("text/html", "<"+tag+" "+attr+"="+v+">")
				runB("text/html", "<"+tag+" "+attr+"=\" "+v+" \">x</"+tag+">")
			}
		}
	}
	for _, prop := range []string{"background", "color", "margin", "font", "unicode-range", "content", "width", "background-position", "filter", "transform"} {
		for _, v := range prefixes(`url( "data:image/png;base64,YQ==" )`, `rgba( 0 , 0 , 0 , .5 )`, `#ffffffff`, `1.50e+10px`, `U+0-10FFFF, U+4??`, `"a\"b" 'c'`, `0 0 !important`, `left 10% top 20%`, `progid:DXImageTransform.Microsoft.Alpha(Opacity=50)`, `calc( 1px + ( 2em * 3 ) )`) {
			runB("text/css", "a{"+prop+":"+v+"}")
		}
	}
	for _, v := range prefixes(`M 10,10 L 20 20 A 5 5 0 0 1 30 30 C 1 1 2 2 3 3 s 1e2 .5.5-1-1 z m1.e5 2`) {
		runB("image/svg+xml", `<svg><path d="`+v+`"/></svg>`)
	}
	for _, v := range prefixes("x=`a${b}c`+'\\x3C\\u{41}\\101'+/re[/]/g.test(y)?1e3:0x1F;class A{#p=1;static{}}", "<svg xmlns=\"http://www.w3.org/2000/svg\" viewBox=\"0 0 10.0 10\"><defs id=\"a\"/><style><![CDATA[a{b:c}]]></style></svg>", "<?xml version=\"1.0\"?><!DOCTYPE a [<!ENTITY x \"y\">]><a b=\"&#60;&amp;\"><![CDATA[ x ]]></a>", "{\"a\":[1.0e+2,-0.5,true,null,\"\\u0041\"]}") {
		for _, mt := range []string{"application/javascript", "image/svg+xml", "text/xml", "application/json", "text/html", "text/css"} {
			runB(mt, v)
		}
	}
	// documents that END right behind a tag (or behind white space / comments behind it): the look-ahead loops of the html, xml
	// and svg minifiers skip white space and comments until the next significant token and must stop at the end of the input
	htmlTags := strings.Split("html head body title p div span a b i ul ol li dl dt dd table thead tbody tfoot tr td th colgroup col caption select optgroup option pre textarea script style iframe svg math template noscript q rt rp rb rtc ruby input button form br hr img meta link base label h1 section article", " ")
	tails := []string{"", " ", "\n", "<!--c-->", " <!--c--> ", "<!--c--><!--d-->\n", "<!--", "<!", "</", "&", " \t\n "}
	for _, tag := range htmlTags {
		for _, pre := range []string{"", "<p>x ", "<!doctype html><html><head></head>"} {
			for _, open := range []string{"<" + tag + ">", "</" + tag + ">", "<" + tag + " a=b>", "<" + tag + "/>"} {
				for _, tail := range tails {
					runB("text/html", pre+open+tail)
				}
			}
		}
	}
	for _, mt := range []string{"text/xml", "image/svg+xml"} {
		for _, open := range []string{"<a>", "</a>", "<a b='c'>", "<a/>", "<?p x?>", "<![CDATA[x]]>", "<!DOCTYPE a>", "<a>x ", "<a> "} {
			for _, tail := range tails {
				runB(mt, "<r>"+open+tail)
				runB(mt, open+tail)
			}
		}
	}
	c.R.Note("boundary-value documents: %d", bnd)

	// long flat runs: one small unit repeated tens of thousands of times behind a short prefix — the inputs on which a
	// look-ahead buffer, a merge loop or a rescan that is linear per step becomes quadratic in total ("no hang")
	long := 0
	size := c.N(64<<10, 512<<10)
	timeL := func(mt, doc string) (time.Duration, string) {
		in := []byte(doc)
		t0 := time.Now()
		crash := h.Safely(30*time.Second, func() {
			m := c10Registry()
			var w bytes.Buffer
			_ = m.Minify(mt, &w, bytes.NewReader(in))
		})
		return time.Since(t0), crash
	}
	runL := func(mt, prefix, unit, suffix string) {
		reps := size / len(unit)
		doc := prefix + strings.Repeat(unit, reps) + suffix
		el, crash := timeL(mt, doc)
		long++
		key := fmt.Sprintf("long run %s %s + %d x %s + %s", mt, h.Q([]byte(prefix)), reps, h.Q([]byte(unit)), h.Q([]byte(suffix)))
		st.Count(key, true)
		st.Tag("long-run")
		if crash != "" {
			c.R.Add(h.Finding{Stage: st.Name, Kind: "fail", What: "minifier " + crash + " on a long flat run", Input: key, Config: fmt.Sprintf("%d bytes", len(doc))})
			return
		}
		if el > 5*time.Second+time.Duration(len(doc))*2*time.Millisecond/10 {
			c.R.Add(h.Finding{Stage: st.Name, Kind: "fail", What: fmt.Sprintf("minifier took %v for %d bytes of a long flat run (bound 5 s + 0.2 ms/byte)", el, len(doc)), Input: key})
			return
		}
		if el > 300*time.Millisecond {
			// growth: four times the input may cost four times the time (allow eight, plus slack for a loaded machine); the
			// comparison is repeated and only a result that holds three times in a row is reported
			small := prefix + strings.Repeat(unit, reps/4) + suffix
			worst := true
			var tS, tL time.Duration
			for try := 0; try < 3 && worst; try++ {
				tS, _ = timeL(mt, small)
				tL, _ = timeL(mt, doc)
				worst = tL > 8*tS+150*time.Millisecond
			}
			st.Tag("long-run-growth-measured")
			if worst && mt != "application/javascript" && c10EntityRunRe.MatchString(unit) && c10OpenKnown["K-C10-1"] {
				c.R.ExcludedKnown++ // K-C10-1: quadratic entity replacement in the dependency
				st.Tag("known:K-C10-1")
			} else if worst && mt == "application/javascript" && c10VarRunRe.MatchString(unit) && c10OpenKnown["K-C10-2"] {
				c.R.ExcludedKnown++ // K-C10-2: emptied statements are deleted one by one
				st.Tag("known:K-C10-2")
			} else if worst {
				c.R.Add(h.Finding{Stage: st.Name, Kind: "fail", What: fmt.Sprintf("running time grows faster than linearly on a long flat run: %v for %d bytes but %v for %d bytes", tS, len(small), tL, len(doc)), Input: key})
			}
		}
	}
	for _, pre := range []string{"", "x ", "<ul><li>a</li>", "<p>x ", "<pre> x ", "<table><tr><td>a</td>", "<select><option>a"} {
		for _, u := range []string{"</i>", "<i>", "<!--c-->", "<b x=y>", " ", "a ", "&amp;", "<p>", "</p>", "<br>", "<li>", "x </i>", "</li> ", "<!--c--> ", "</option>", "<td>", " </td>"} {
			runL("text/html", pre, u, "")
		}
	}
	for _, mt := range []string{"text/xml", "image/svg+xml"} {
		root := "<r>"
		if mt == "image/svg+xml" {
			root = "<svg>"
		}
		for _, pre := range []string{root, root + "x ", root + "<a b='c'"} {
			for _, u := range []string{"</a>", "<a>", "<!--c-->", "<?p x?>", "<![CDATA[]]>", "<a/>", " ", "x ", "<!--c--> ", " b='c'", "]", "&gt;"} {
				runL(mt, pre, u, "")
			}
		}
	}
	runL("image/svg+xml", `<svg><path d="M`, "1 ", `"/></svg>`)
	runL("image/svg+xml", `<svg><path d="M0 0`, "l1 1", `"/></svg>`)
	runL("image/svg+xml", `<svg><path d="M0 0`, "A1 1 0 0 1 2 2", `"/></svg>`)
	for _, pre := range []string{"", "a{", "a{b:", "@media x{", "a{b:url(", "a{unicode-range:"} {
		for _, u := range []string{"a{}", ";", "a,", "/**/", " ", "}", "{", "(", "@x;", "b:c;", "1px ", "U+1,", "a ", "[", ")"} {
			runL("text/css", pre, u, "")
		}
	}
	for _, pre := range []string{"", "x=", "function f(){", "var a;", "if(a)"} {
		for _, u := range []string{";", "a;", "+a", "(", "[", "{", ",a", "!", "a=", ".a", "/**/", "\n", "a\n", "var b;", "if(a)", "else;", "`", "a?b:"} {
			runL("application/javascript", pre, u, "")
		}
	}
	for _, u := range []string{"[", "1,", `{"a":`, " ", `"a",`, "[],", "{},"} {
		runL("application/json", "[", u, "")
	}
	c.R.Note("long flat runs: %d documents of about %d bytes", long, size)
	// replay of the open known finding K-C10-1 at a size where the growth is unmistakable
	for _, k := range h.Known("C10") {
		if k.Status != "open" || k.Replay["unit"] == nil {
			continue
		}
		unit := k.ReplayStr("unit")
		nS, nL := int(k.Replay["small_bytes"].(float64)), int(k.Replay["large_bytes"].(float64))
		still := true
		var tS, tL time.Duration
		for try := 0; try < 3 && still; try++ {
			tS, _ = timeL(k.ReplayStr("mediatype"), strings.Repeat(unit, nS/len(unit)))
			tL, _ = timeL(k.ReplayStr("mediatype"), strings.Repeat(unit, nL/len(unit)))
			still = tL > 8*tS+150*time.Millisecond
		}
		c.R.AddKnown(k.ID, still, k.What, fmt.Sprintf("%v for %d bytes, %v for %d bytes", tS, nS, tL, nL))
	}

	// deep nesting in a subprocess
	dir, err := os.MkdirTemp("", "verif-c10-")
	if err != nil {
		return err
	}
	defer os.RemoveAll(dir)
	exe := filepath.Join(dir, "deep10")
	build := exec.Command("go", append(h.GoBuildArgs(), "-tags", "verif", "-o", exe, "./cmd/deep10")...)
	build.Dir = filepath.Join(h.Root(), "harness")
	if out, err := build.CombinedOutput(); err != nil {
		return fmt.Errorf("building deep10: %v\n%s", err, out)
	}
	for _, name := range strings.Split("js-paren js-array js-block js-unary js-binary js-if js-fn js-tmpl json-array json-object css-block css-paren css-values html-div html-p xml-el svg-g svg-path", " ") {
		cmd := exec.Command(exe, name)
		var out bytes.Buffer
		cmd.Stdout, cmd.Stderr = &out, &out
		t0 := time.Now()
		done := make(chan error, 1)
		cmd.Start()
		go func() { done <- cmd.Wait() }()
		var werr error
		select {
		case werr = <-done:
		case <-time.After(90 * time.Second):
			cmd.Process.Kill()
			werr = fmt.Errorf("timeout after 90 s")
		}
		st.Count("deep nesting "+name, true)
		st.Tag("deep")
		if werr != nil {
			tail := out.String()
			if len(tail) > 600 {
				tail = tail[:600]
			}
			c.R.Add(h.Finding{Stage: st.Name, Kind: "fail", What: fmt.Sprintf("deeply nested input %s: %v after %v", name, werr, time.Since(t0)), Input: "cmd/deep10 " + name, Impl: tail})
		}
	}
	st.End()
	return nil
}

func init() {
	register("C10", func(c *Ctx) error {
		if err := c10BufferScripts(c); err != nil {
			return err
		}
		if err := c10BytesWrapper(c); err != nil {
			return err
		}
		return c10Sweep(c)
	})
}

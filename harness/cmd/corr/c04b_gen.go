package main

// C04B — structured generator of style sheets: nested at-rules, selectors with every combinator / attribute form /
// pseudo-class shape, at-rule preludes, `font` and `background` values from their grammars (and off-grammar ones),
// custom properties, comments, parse-error fragments, inline declaration lists.

import (
	"strings"

	"verifharness/h"
)

func c04bWs(r *h.RNG) string {
	if r.Chance(1) {
		return "/**/" // K-C04B-13 where it stands between two tokens of a prelude
	}
	return r.Pick([]string{"", "", "", " ", " ", "  ", "\n", "\t", " /* c */ ", " /**/ "})
}
func c04bWs1(r *h.RNG) string {
	return r.Pick([]string{" ", " ", " ", "  ", "\n", "\t ", " /* c */ "})
}

// ---------- selectors ----------

func c04bAttr(r *h.RNG) string {
	name := r.Pick([]string{"href", "HREF", "data-x", "Title", "type", "lang", "xml|lang", "*|a", "|a", "i", "s", "class"})
	if r.Chance(15) {
		return "[" + c04bWs(r) + name + c04bWs(r) + "]"
	}
	op := r.Pick([]string{"=", "~=", "|=", "^=", "$=", "*="})
	val := r.Pick([]string{"a", "Abc", "text", "a-b", "_x", "-x", "--x", "-", "1a", "a b", "", " ", "a.b", "é", "x\\\"y", "a\\62 c", "a\\,b", "en-US", "i", "s", "I", "#a", "a]b", "a\\\nb", "Z9", "icon-"})
	if r.Chance(3) {
		val = r.Pick([]string{"\\63", "x\\9"}) // K-C04B-4 with a flag
	}
	q := r.Pick([]string{"\"", "'", ""})
	if q == "" && !c04IsIdent([]byte(val)) {
		q = "\""
	}
	if q == "\"" && strings.Contains(val, "\\\"") {
		// escaped quote stays inside a double-quoted string
	} else if q == "'" {
		val = strings.ReplaceAll(val, "\\\"", "\"")
	}
	flag := r.Pick([]string{"", "", "", "", " i", " I", "i", "  i ", " i", "I"})
	if r.Chance(4) {
		flag = r.Pick([]string{" s", " S", "s", " x"}) // K-C04B-1
	}
	if flag != "" && q == "" && !strings.HasPrefix(flag, " ") {
		flag = " " + flag
	}
	return "[" + c04bWs(r) + name + c04bWs(r) + op + c04bWs(r) + q + val + q + flag + c04bWs(r) + "]"
}

func c04bPseudo(r *h.RNG, depth int) string {
	switch r.Intn(14) {
	case 0:
		return r.Pick([]string{":hover", ":HOVER", ":Focus-Within", ":first-child", ":ROOT", ":checked", ":visited"})
	case 1:
		return r.Pick([]string{"::before", "::BEFORE", ":before", ":After", "::first-line", ":FIRST-LETTER", "::selection", "::-webkit-scrollbar", "::Placeholder"})
	case 2:
		if depth < 2 {
			return r.Pick([]string{":not(", ":NOT(", ":is(", ":where(", ":matches(", ":-webkit-any(", ":Has("}) + c04bWs(r) + c04bSelList(r, depth+1) + c04bWs(r) + ")"
		}
		return ":not(.A)"
	case 3:
		anb := r.Pick([]string{"2n+1", "2N+1", "2n + 1", "2N + 1", "even", "EVEN", "Odd", "-n+3", "-N + 3", "n", "N", "5", "+3n-2", "3n - 2", "3N- 2"})
		of := ""
		if r.Chance(25) && depth < 2 {
			of = " " + r.Pick([]string{"of", "OF"}) + " " + c04bSelList(r, depth+1)
		}
		return r.Pick([]string{":nth-child(", ":NTH-CHILD(", ":nth-last-child(", ":nth-of-type(", ":Nth-Last-Of-Type("}) + c04bWs(r) + anb + of + c04bWs(r) + ")"
	case 4:
		return r.Pick([]string{":lang(en)", ":lang(EN)", ":LANG(\"de-CH\")", ":lang(fr, DE)", ":dir(rtl)", ":dir(RTL)"})
	case 5:
		if r.Chance(10) {
			return r.Pick([]string{"::part(Foo)", "::part(Foo bar)", ":state(Checked)", "::highlight(Hl)", "::view-transition-group(Card)", ":unknown-fn(Foo, 1 )"}) // K-C04B-3
		}
		return r.Pick([]string{"::part(foo)", "::part(foo bar)", ":state(checked)", "::highlight(hl)", "::view-transition-group(card)", ":host(.A)", ":host-context(DIV)", "::slotted(SPAN)", "::slotted(.Foo)", "::cue(B)", ":unknown-fn(foo, 1 )"})
	}
	return r.Pick([]string{":hover", "::before", ":focus", ":Active"})
}

func c04bCompound(r *h.RNG, depth int) string {
	var sb strings.Builder
	switch r.Intn(10) {
	case 0, 1, 2, 3:
		sb.WriteString(r.Pick([]string{"a", "A", "DIV", "div", "p", "li", "h1", "linearGradient", "foreignObject", "i", "s", "custom-Element"}))
	case 4:
		sb.WriteString(r.Pick([]string{"*", "*", "svg|circle", "svg|a", "foo|Bar", "*|a", "|a", "svg|*", "*|*", "*|A"}))
		if r.Chance(8) {
			sb.Reset()
			sb.WriteString(r.Pick([]string{"SVG|a", "Foo|Bar"})) // K-C04B-2
		}
	}
	n := r.Intn(3)
	if sb.Len() == 0 && n == 0 {
		n = 1
	}
	for i := 0; i < n; i++ {
		switch r.Intn(8) {
		case 0, 1:
			sb.WriteString(r.Pick([]string{".a", ".Foo", ".foo-Bar", ".B_1", ".\\31 0", ".a\\:b", ".É"}))
		case 2:
			sb.WriteString(r.Pick([]string{"#id", "#Id", "#MAIN", "#a-b", "#\\31 x"}))
		case 3, 4:
			sb.WriteString(c04bAttr(r))
		default:
			sb.WriteString(c04bPseudo(r, depth))
		}
	}
	return sb.String()
}

func c04bComplex(r *h.RNG, depth int) string {
	n := []int{1, 1, 1, 2, 2, 3}[r.Intn(6)]
	var sb strings.Builder
	if depth > 0 && r.Chance(15) {
		sb.WriteString(r.Pick([]string{"> ", "+ ", "~ ", ">"})) // relative selector (:has)
	}
	for i := 0; i < n; i++ {
		if i > 0 {
			sb.WriteString(r.Pick([]string{" ", " ", "  ", "\n", " > ", ">", " >", "> ", " + ", "+", " ~ ", "~", " || ", "||", " /* c */ "}))
		}
		sb.WriteString(c04bCompound(r, depth))
	}
	return sb.String()
}

func c04bSelList(r *h.RNG, depth int) string {
	n := []int{1, 1, 1, 2, 3}[r.Intn(5)]
	parts := make([]string, n)
	for i := range parts {
		parts[i] = c04bComplex(r, depth)
	}
	return strings.Join(parts, r.Pick([]string{",", ", ", " , ", " ,\n"}))
}

// ---------- font / background values ----------

func c04bFamily(r *h.RNG) string {
	if r.Chance(6) {
		return r.Pick([]string{"\"Sans-Serif\"", "\"inherit\"", "\"a\\\nb\"", "var(--f)", "medium", "\"serif\"", "normal", "bold"}) // K-C04-6, outside the family model, size keywords as names
	}
	return r.Pick([]string{"serif", "sans-serif", "Arial", "Helvetica Neue", "Times New Roman", "\"Times New Roman\"", "'Segoe UI'", "\"A\"", "\"a-\"", "\"3rd\"", "\"Foo Bar\"", "\"foo  bar\"", "-apple-system", "\"-x\"",
		"system-ui", "monospace", "Georgia", "\"Font Awesome 5 Free\"", "a b  c", "\"é\"", "B", "Small caps", "\"X Y\"", "'Z'", "\"1\"", "\" a\"", "Normal Font", "Bold Face"})
}

func c04bFont(r *h.RNG) string {
	if r.Chance(8) {
		return r.Pick([]string{"caption", "icon", "menu", "message-box", "small-caption", "status-bar", "inherit", "initial", "unset", "INHERIT", "var(--f)", "12px", "bold", "normal,b", "a,b"})
	}
	pre := []string{}
	if r.Chance(85) {
		// grammatical: at most one token per component, `normal` fills up to four
		slots := [][]string{{"italic", "oblique", "Italic", "ITALIC"}, {"small-caps", "Small-Caps"}, {"bold", "BOLD", "Bold", "bolder", "lighter", "400", "700", "100", "4e2", "400.0", "1", "950"},
			{"condensed", "expanded", "ultra-condensed", "semi-expanded", "Extra-Expanded"}}
		for _, sl := range slots {
			if r.Chance(35) {
				pre = append(pre, r.Pick(sl))
			}
		}
		for len(pre) < 4 && r.Chance(30) {
			pre = append(pre, r.Pick([]string{"normal", "NORMAL", "Normal"}))
		}
		for i := len(pre) - 1; i > 0; i-- {
			j := r.Intn(i + 1)
			pre[i], pre[j] = pre[j], pre[i]
		}
	} else {
		pool := []string{"normal", "NORMAL", "italic", "oblique", "Italic", "small-caps", "bold", "BOLD", "Bold", "bolder", "lighter", "400", "700", "100", "4e2", "400.0", "1", "condensed", "expanded", "ultra-condensed", "semi-expanded", "0", "1001"}
		for n := []int{0, 1, 2, 3, 4, 5}[r.Intn(6)]; n > 0; n-- {
			pre = append(pre, r.Pick(pool))
		}
	}
	size := r.Pick([]string{"12px", "12PX", "1em", "1.0em", "0", "0px", "100%", "120.0%", ".5rem", "medium", "MEDIUM", "large", "x-small", "xx-large", "xxx-large", "larger", "smaller", "calc(1em + 2px)", "1e1px", "12pt", "+12px", "math", "small", "X-Large", "0.0em"})
	if r.Chance(3) {
		size = "var(--s)"
	}
	lh := ""
	if r.Chance(45) {
		lh = r.Pick([]string{"/", " / ", "/ ", " /"}) + r.Pick([]string{"normal", "NORMAL", "normal", "1", "1.0", "1.5", "0", "30px", "120%", "1.2em", "calc(1em + 2px)", "0.0", "400", "Normal"})
	}
	n := []int{1, 1, 1, 2, 2, 3}[r.Intn(6)]
	fams := make([]string, n)
	for i := range fams {
		fams[i] = c04bFamily(r)
	}
	parts := append(pre, size+lh)
	v := c04JoinR(r, parts) + c04bWs1(r) + strings.Join(fams, r.Pick([]string{",", ", ", " , "}))
	if r.Chance(4) {
		v = c04JoinR(r, pre) + " " + size // no family
	}
	return v
}

// c04bBgPos: a grammatical <bg-position> (one to four values) in 92% of the cases
func c04bBgPos(r *h.RNG) string {
	for k := 0; k < 20; k++ {
		p := c04BgPosLayer(r)
		if r.Chance(8) {
			return p
		}
		f := strings.Fields(strings.ToLower(p))
		isKw := func(s string) bool {
			return s == "left" || s == "right" || s == "top" || s == "bottom" || s == "center"
		}
		isH := func(s string) bool { return s == "left" || s == "right" }
		isV := func(s string) bool { return s == "top" || s == "bottom" }
		ok := false
		switch len(f) {
		case 1:
			ok = true
		case 2:
			a, b := f[0], f[1]
			switch {
			case isKw(a) && isKw(b):
				ok = !(isH(a) && isH(b)) && !(isV(a) && isV(b))
			case isKw(a):
				ok = !isV(a)
			case isKw(b):
				ok = !isH(b)
			default:
				ok = true
			}
		case 3:
			a, b, c := f[0], f[1], f[2]
			if isKw(a) && !isKw(b) && isKw(c) {
				ok = a != "center" && !(isH(a) && isH(c)) && !(isV(a) && isV(c))
			} else if isKw(a) && isKw(b) && !isKw(c) {
				ok = b != "center" && !(isH(a) && isH(b)) && !(isV(a) && isV(b))
			}
		case 4:
			ok = isKw(f[0]) && !isKw(f[1]) && isKw(f[2]) && !isKw(f[3]) && f[0] != "center" && f[2] != "center" && isH(f[0]) != isH(f[2])
		}
		if ok && !strings.Contains(p, "var(") {
			return p
		}
	}
	return "left top"
}

func c04bBgSize(r *h.RNG) string {
	one := []string{"auto", "AUTO", "10px", "50%", "0", "0%", "0px", "100%", "1em", "10.0px", "calc(1px + 2px)", "20%", "3em"}
	switch r.Intn(6) {
	case 0:
		return r.Pick([]string{"cover", "contain", "COVER"})
	case 1, 2:
		return r.Pick(one)
	}
	return r.Pick(one) + " " + r.Pick(one)
}

func c04bBgLayer(r *h.RNG, last bool) string {
	var comps []string
	if r.Chance(70) {
		comps = append(comps, r.Pick([]string{"url(x.png)", "url( \"a b.png\" )", "url('x.png')", "URL(x)", "none", "NONE", "linear-gradient(red, blue)", "linear-gradient(to right, #FF0000 0%, rgba(0,0,0,0) 100%)", "radial-gradient(circle, red, blue)",
			"image-set(\"a.png\" 1x)", "url(\"data:image/svg+xml,%3Csvg/%3E\")", "-webkit-linear-gradient(top, red, blue)", "url()"}))
		if r.Chance(3) {
			comps[len(comps)-1] = "var(--img)"
		}
	}
	if r.Chance(65) {
		pos := c04bBgPos(r)
		if r.Chance(40) {
			pos += r.Pick([]string{"/", " / ", "/ ", " /"}) + c04bBgSize(r)
		}
		comps = append(comps, pos)
	}
	if r.Chance(50) {
		rep := []string{"repeat", "no-repeat", "space", "round", "REPEAT", "No-Repeat"}
		switch r.Intn(4) {
		case 0:
			comps = append(comps, r.Pick([]string{"repeat-x", "repeat-y", "REPEAT-X"}))
		case 1:
			comps = append(comps, r.Pick(rep))
		default:
			comps = append(comps, r.Pick(rep)+" "+r.Pick(rep))
		}
	}
	if r.Chance(30) {
		comps = append(comps, r.Pick([]string{"scroll", "fixed", "local", "SCROLL"}))
	}
	if r.Chance(35) {
		box := []string{"border-box", "padding-box", "content-box", "PADDING-BOX"}
		switch r.Intn(40) {
		case 0:
			comps = append(comps, r.Pick(box), r.Pick(box), r.Pick(box)) // K-C04B-8
		case 1, 2, 3, 4, 5, 6, 7, 8, 9, 10, 11, 12, 13, 14, 15:
			comps = append(comps, r.Pick(box), r.Pick(box))
		default:
			comps = append(comps, r.Pick(box))
		}
	}
	if (last && r.Chance(50)) || r.Chance(2) {
		comps = append(comps, r.Pick([]string{c04Color(r), c04Color(r), "transparent", "TRANSPARENT", "#0000", "#00000000", "rgba(0,0,0,0)", "currentcolor", "#000", "black", "red", "#FF0000"}))
	}
	if len(comps) == 0 {
		comps = append(comps, r.Pick([]string{"none", "0 0", "transparent", "red", "inherit", "initial"}))
	}
	// `||`: any order (a box pair stays in order because the components were appended separately)
	if r.Chance(60) {
		for i := len(comps) - 1; i > 0; i-- {
			j := r.Intn(i + 1)
			comps[i], comps[j] = comps[j], comps[i]
		}
	}
	return c04JoinR(r, comps)
}

func c04bBackground(r *h.RNG) string {
	n := []int{1, 1, 1, 1, 2, 2, 3}[r.Intn(7)]
	ls := make([]string, n)
	for i := range ls {
		ls[i] = c04bBgLayer(r, i == n-1)
	}
	if r.Chance(3) {
		ls = append(ls, "")
	}
	return strings.Join(ls, r.Pick([]string{",", ", ", " , ", " ,"}))
}

// ---------- declarations ----------

func c04bDecl(r *h.RNG, shapes []c04Shape) string {
	imp := r.Pick([]string{"", "", "", "", "!important", " !important", " ! important", "!IMPORTANT", " !Important ", "! important"})
	switch r.Intn(20) {
	case 0, 1, 2, 3:
		return r.Pick([]string{"font", "FONT", "font"}) + r.Pick([]string{":", ": ", " : "}) + c04bFont(r) + imp
	case 4, 5, 6, 7, 8:
		return r.Pick([]string{"background", "Background", "background"}) + r.Pick([]string{":", ": ", " : "}) + c04bBackground(r) + imp
	case 9:
		return r.Pick([]string{"--x", "--Foo", "--a-b", "--0"}) + r.Pick([]string{":", ": ", " :", ":  "}) + r.Pick([]string{"1px", " { a : b } ", "", " ", "  ", "red ", "a;b", "{a:b;c:d}", "[1,2]", "\"s\"", "calc( 1px + 2px )", "/* c */x", "x !important", "url( x )", "A  B"})
	case 10:
		return r.Pick([]string{"*zoom:1", "_height:1px", "*display : inline", "filter:progid:DXImageTransform.Microsoft.Alpha(Opacity=50)", "color:red\\9", "width:calc( 1px + 2px )", "grid-area:1 / 2 / 3 / 4", "content:\"a\" attr(x)", "margin:-0.0px +.50em", "transition:all .30s ease 0s"}) + imp
	case 11:
		// parse-error fragments
		return r.Pick([]string{"e", "e f", "e f g", "{}", "a{b:c}", "b c { d : e }", ":x", "c:d e:f", "x:(y", "x:[y", "x y:z", ";", "& .a{c:d}", "&:hover{c:d}", "c:d}", "]", ")", "c:d ]"})
	}
	return c04DeclText(r, shapes)
}

func c04bDeclList(r *h.RNG, shapes []c04Shape, depth int) string {
	n := []int{0, 1, 1, 2, 2, 3, 4}[r.Intn(7)]
	var sb strings.Builder
	for i := 0; i < n; i++ {
		if r.Chance(6) {
			sb.WriteString(r.Pick([]string{"/* c */", "/*! b */", ";", " ;; "}))
		}
		if r.Chance(4) && depth < 3 {
			sb.WriteString(r.Pick([]string{"@media print{a{c:d}}", "@top-left{content:\"x\"}", "@supports (a:b){c:d}", "@import \"x\";", "@unknown x;"}))
		} else {
			sb.WriteString(c04bWs(r) + c04bDecl(r, shapes))
		}
		if i < n-1 || r.Chance(35) {
			sb.WriteString(c04bWs(r) + r.Pick([]string{";", ";", ";", ";;", "; ;"}))
		}
	}
	return sb.String() + c04bWs(r)
}

// ---------- at-rules ----------

func c04bMediaQuery(r *h.RNG) string {
	feat := func() string {
		switch r.Intn(5) {
		case 0:
			return "(" + c04bWs(r) + r.Pick([]string{"color", "COLOR", "monochrome", "hover"}) + c04bWs(r) + ")"
		case 1:
			return "(" + c04bWs(r) + r.Pick([]string{"400px <= width <= 700px", "width>=600px", "width > 10em", "100px<width"}) + c04bWs(r) + ")"
		}
		return "(" + c04bWs(r) + r.Pick([]string{"min-width", "MAX-WIDTH", "orientation", "min-resolution", "-webkit-min-device-pixel-ratio", "aspect-ratio"}) + c04bWs(r) + ":" + c04bWs(r) +
			r.Pick([]string{"100px", "100PX", "0", "0px", "0.0em", "landscape", "LANDSCAPE", "2dppx", "1.5", "16/9", "16 / 9", "calc(1px + 2px)"}) + c04bWs(r) + ")"
	}
	var sb strings.Builder
	if r.Chance(60) {
		sb.WriteString(r.Pick([]string{"", "", "not ", "only ", "NOT ", "ONLY "}) + r.Pick([]string{"screen", "print", "all", "SCREEN", "Print"}))
		for n := r.Intn(3); n > 0; n-- {
			sb.WriteString(c04bWs1(r) + r.Pick([]string{"and", "AND"}) + c04bWs1(r) + feat())
		}
	} else {
		sb.WriteString(feat())
		for n := r.Intn(3); n > 0; n-- {
			sb.WriteString(c04bWs1(r) + r.Pick([]string{"and", "or", "AND"}) + c04bWs1(r) + feat())
		}
		if r.Chance(15) {
			return "not " + sb.String()
		}
	}
	return sb.String()
}

func c04bMediaList(r *h.RNG) string {
	n := []int{1, 1, 2, 3}[r.Intn(4)]
	qs := make([]string, n)
	for i := range qs {
		qs[i] = c04bMediaQuery(r)
	}
	return strings.Join(qs, r.Pick([]string{",", ", ", " , "}))
}

func c04bSupports(r *h.RNG) string {
	cond := func() string {
		return r.Pick([]string{"(display:grid)", "( display : grid )", "(display: flex) ", "(--x: 1)", "not (display:grid)", "NOT (a:b)", "selector(a > b)", "selector( A>B )", "selector(a :hover)", "selector(a:hover)", "(transform-style: preserve) or (-moz-transform-style: preserve)", "((a:b) and (c:d))", "font-tech(color-COLRv1)"})
	}
	s := cond()
	for n := r.Intn(2); n > 0; n-- {
		s += c04bWs1(r) + r.Pick([]string{"and", "or"}) + c04bWs1(r) + cond()
	}
	return s
}

func c04bImport(r *h.RNG) string {
	target := r.Pick([]string{"url(foo.css)", "url( foo.css )", "url(\"foo.css\")", "url('foo.css')", "url( \"foo.css\" )", "url( 'foo.css')", "\"foo.css\"", "'foo.css'", "url(x)", "url( x )", "url()", "url( )", "url(a\\)b.css)", "url(//h/p?q=1&r=2)", "URL(foo.css)", "url(\"a b.css\")", "url(\"a\\\"b\")", "url(fo)", "url(\n//url\n)"})
	tail := r.Pick([]string{"", "", "", " screen", " print, screen and (color)", " supports(display:grid)", " layer(base)", " layer", "screen"})
	if tail != "" && !strings.HasPrefix(tail, " ") && !strings.HasSuffix(target, ")") && !strings.HasSuffix(target, "\"") && !strings.HasSuffix(target, "'") {
		tail = " " + tail
	}
	return r.Pick([]string{"@import", "@IMPORT", "@Import"}) + c04bWs1(r) + target + tail + c04bWs(r) + ";"
}

func c04bAtRule(r *h.RNG, shapes []c04Shape, depth int) string {
	open := func() string { return c04bWs(r) + "{" + c04bWs(r) }
	switch r.Intn(16) {
	case 0, 1, 2:
		return r.Pick([]string{"@media", "@MEDIA", "@Media"}) + c04bWs1(r) + c04bMediaList(r) + open() + c04bSheet(r, shapes, depth+1) + "}"
	case 3:
		return r.Pick([]string{"@supports", "@SUPPORTS"}) + c04bWs1(r) + c04bSupports(r) + open() + c04bSheet(r, shapes, depth+1) + "}"
	case 4:
		if depth == 0 {
			return c04bImport(r)
		}
		return "@media print" + open() + c04bSheet(r, shapes, depth+1) + "}"
	case 5:
		return r.Pick([]string{"@charset \"utf-8\";", "@CHARSET 'UTF-8' ;", "@namespace url(http://www.w3.org/1999/xhtml);", "@namespace svg url(http://www.w3.org/2000/svg);", "@namespace Foo \"u\";", "@namespace  SVG  'http://www.w3.org/2000/svg' ;",
			"@layer a, b;", "@layer A , B.c ;", "@unknown foo bar;", "@unknown;", "@-x-foo ( a : b ) [c] ;"})
	case 6:
		return r.Pick([]string{"@font-face", "@FONT-FACE"}) + open() + "font-family:" + c04bFamily(r) + ";src:" + c04URL(r) + r.Pick([]string{"", " format(\"woff\")", ",local(\"Foo\")", ", local( Foo Bar )"}) + ";" + c04bDeclList(r, shapes, depth+1) + "}"
	case 7:
		sel := func() string {
			return r.Pick([]string{"from", "FROM", "to", "TO", "0%", "0.0%", "50%", "100%", "50.0%", "0%,50%", "from , to", "10%, 20.5%"})
		}
		var sb strings.Builder
		sb.WriteString(r.Pick([]string{"@keyframes", "@-webkit-keyframes", "@KEYFRAMES"}) + c04bWs1(r) + r.Pick([]string{"x", "X", "Spin", "\"quoted\"", "fade-In"}) + open())
		for n := 1 + r.Intn(3); n > 0; n-- {
			sb.WriteString(sel() + open() + c04bDeclList(r, shapes, depth+1) + "}" + c04bWs(r))
		}
		return sb.String() + "}"
	case 8:
		return r.Pick([]string{"@page", "@PAGE"}) + r.Pick([]string{"", " :first", ":first", " :LEFT", " toc", " toc:first", " Toc :first", " :first , :left"}) + open() + c04bDeclList(r, shapes, depth+1) + r.Pick([]string{"", "@top-left{content:\"x\"}", "@bottom-center { content : counter(page) }margin:0"}) + "}"
	case 9:
		return r.Pick([]string{"@layer base", "@layer", "@container (min-width: 400px)", "@container Card (width > 400px)", "@scope (.a) to (.B)", "@starting-style", "@unknown foo", "@-moz-document url-prefix()", "@document url(x)", "@property --x", "@counter-style Foo"}) +
			open() + r.Pick([]string{"a{c:d}", " a { c : d } ", "syntax:\"<length>\";inherits:false", "", " ", "a b  c ;  d", "a{b:c} d{e:f}", "x:(y) [z] {w}", c04bRule(r, shapes, depth+1)}) + "}"
	}
	return c04bRule(r, shapes, depth)
}

func c04bRule(r *h.RNG, shapes []c04Shape, depth int) string {
	return c04bSelList(r, 0) + c04bWs(r) + "{" + c04bDeclList(r, shapes, depth) + "}"
}

func c04bSheet(r *h.RNG, shapes []c04Shape, depth int) string {
	var sb strings.Builder
	n := []int{0, 1, 1, 2, 2, 3, 4}[r.Intn(7)]
	if depth == 0 && n == 0 {
		n = 1
	}
	for i := 0; i < n; i++ {
		switch k := r.Intn(20); {
		case k < 5 && depth < 3:
			sb.WriteString(c04bAtRule(r, shapes, depth))
		case k == 5:
			sb.WriteString(r.Pick([]string{"/* comment */", "/*! keep  me */", "/*!\n * multi\n *   line\n */", "/*# sourceMappingURL=x.map */", "/*@ x */", "/*!*/", "/*!x*/", "/**/", "<!--", "-->", "<!-- ", " -->"}))
		case k == 6 && depth == 0:
			sb.WriteString(r.Pick([]string{"}", "]", ")", "a{c:d}}", "a{c:d", "a,]{c:d}", "@media x{a{c:d}]b{e:f}}", "a{c:(d}e:f}", "@import \"a\";}", "a{b{c:d}}", "a{&:hover{c:d}e:f}"}))
		default:
			sb.WriteString(c04bRule(r, shapes, depth))
		}
		sb.WriteString(c04bWs(r))
	}
	return sb.String()
}

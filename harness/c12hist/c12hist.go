// Package c12hist executes HISTORIES of calls of the entry points of tdewolff/minify on ONE *minify.M and
// checks the ownership side of property C12: every piece of memory an entry point hands back (the slice
// returned by m.Bytes, the string of m.String, the bytes read from m.Reader, what arrived at the writer
// of m.Minify / m.MinifyMimetype / m.Writer / m.ResponseWriter / Middleware) is RETAINED, not copied, and
// compared with the plain reader-to-writer call's result only after the whole history has run; the
// caller's own slices (inputs, chunks, the mimetype of MinifyMimetype) must be unchanged at that point.
// A copy taken at the moment of return tells "wrong from the start" from "overwritten by a later call".
//
// The package is shared by the C12 runner (harness/cmd/corr/c12.go, which generates the histories) and by
// cmd/race12 (the same executor built with the race detector, histories on stdin).
package c12hist

import (
	"bytes"
	"errors"
	"fmt"
	"io"
	"net/http"
	"net/http/httptest"
	"runtime"
	"strconv"
	"sync"
	"time"

	"github.com/tdewolff/minify/v2"
	"github.com/tdewolff/minify/v2/css"
	"github.com/tdewolff/minify/v2/html"
	"github.com/tdewolff/minify/v2/js"
	"github.com/tdewolff/minify/v2/json"
	"github.com/tdewolff/minify/v2/svg"
	"github.com/tdewolff/minify/v2/xml"
	"github.com/tdewolff/parse/v2"
)

// Entry points (Op of a Step).  The last four are the exported helpers that return a slice which may alias
// their argument; their documentation states no ownership rule, so the only thing demanded of them is that
// a result, once returned, is not changed by LATER calls on OTHER memory and equals an isolated call.
const (
	OpBytes      = "Bytes"
	OpString     = "String"
	OpMinify     = "Minify"
	OpMimetype   = "MinifyMimetype"
	OpReader     = "Reader"
	OpWriter     = "Writer"
	OpRespWriter = "ResponseWriter"
	OpMiddleware = "Middleware"
	OpDataURI    = "DataURI"
	OpMediatype  = "Mediatype"
	OpNumber     = "Number"
	OpDecimal    = "Decimal"
)

// EntryOps are the minifying entry points, HelperOps the slice helpers.
var EntryOps = []string{OpBytes, OpString, OpMinify, OpMimetype, OpReader, OpWriter, OpRespWriter, OpMiddleware}
var HelperOps = []string{OpDataURI, OpMediatype, OpNumber, OpDecimal}

func isHelper(op string) bool {
	return op == OpDataURI || op == OpMediatype || op == OpNumber || op == OpDecimal
}

// Step is one call.
type Step struct {
	Op   string `json:"op"`
	MT   string `json:"mt,omitempty"`   // media type (entry points)
	In   []byte `json:"in"`             // the input document / helper argument
	Cut  []int  `json:"cut,omitempty"`  // chunk boundaries (offsets into In) for Writer, ResponseWriter, Middleware and the source of Reader
	Read []int  `json:"read,omitempty"` // consumer buffer sizes for Reader (cyclic)
	Prec int    `json:"prec,omitempty"` // Number / Decimal
}

// History: every thread runs its steps in order (Reps times); one thread = a sequential history.
type History struct {
	ID      string   `json:"id"`
	Threads [][]Step `json:"threads"`
	Reps    int      `json:"reps,omitempty"`
	Procs   int      `json:"procs,omitempty"` // GOMAXPROCS for a concurrent history (0 = leave)
}

// Finding is one failed comparison.
type Finding struct {
	Hist     string `json:"hist"`
	Thread   int    `json:"thread"`
	Index    int    `json:"index"`
	Rep      int    `json:"rep"`
	Op       string `json:"op"`
	MT       string `json:"mt"`
	What     string `json:"what"`
	Got      string `json:"got"`
	Want     string `json:"want"`
	AtReturn string `json:"at_return"`
	Phase    string `json:"phase"` // "own-end": when the calling goroutine finished its sequence; "end": after all goroutines finished
	Crash    bool   `json:"crash,omitempty"`
	Input    []byte `json:"input,omitempty"`
}

var ErrBoom = errors.New("boom")

// NewM registers the six minifiers the way cmd/minify does, plus a stub that slurps, writes late in three
// pieces and fails.
func NewM() *minify.M {
	m := minify.New()
	m.Add("text/css", &css.Minifier{})
	m.Add("text/html", &html.Minifier{})
	m.Add("application/javascript", &js.Minifier{})
	m.Add("application/json", &json.Minifier{})
	m.Add("image/svg+xml", &svg.Minifier{})
	m.Add("text/xml", &xml.Minifier{})
	m.AddFunc("x/late-fail", func(_ *minify.M, w io.Writer, r io.Reader, _ map[string]string) error {
		z := parse.NewInput(r)
		n := z.Len()
		runtime.Gosched()
		w.Write([]byte("par"))
		runtime.Gosched()
		w.Write([]byte("ti"))
		w.Write([]byte("al:" + strconv.Itoa(n)))
		return ErrBoom
	})
	return m
}

func errText(err error) string {
	if err == nil {
		return "<nil>"
	}
	return err.Error()
}

func clone(b []byte) []byte { return append([]byte(nil), b...) }

// ---- the oracle: the plain reader-to-writer call (helpers: an isolated call on a fresh copy) ----

type expect struct {
	out []byte
	err string
}

// Expect computes what step st must yield.  Entry points: from the plain call m.Minify(mt, buffer, reader over a
// private copy); helpers: from an isolated call on a private copy.
func Expect(m *minify.M, st Step) (e expect) {
	if isHelper(st.Op) {
		arg := clone(st.In)
		switch st.Op {
		case OpDataURI:
			e.out = clone(minify.DataURI(m, arg))
		case OpMediatype:
			e.out = clone(minify.Mediatype(arg))
		case OpNumber:
			e.out = clone(minify.Number(arg, st.Prec))
		case OpDecimal:
			e.out = clone(minify.Decimal(arg, st.Prec))
		}
		e.err = "<nil>"
		return
	}
	var buf bytes.Buffer
	err := m.Minify(st.MT, &buf, bytes.NewReader(clone(st.In)))
	out := clone(buf.Bytes())
	switch st.Op {
	case OpBytes, OpString:
		// documented: "When an error occurs it return the original array and the error"
		if err != nil {
			out = clone(st.In)
		}
	case OpRespWriter, OpMiddleware:
		// no matching minifier: the response passes through untouched and Close reports nothing
		if errors.Is(err, minify.ErrNotExist) {
			out, err = clone(st.In), nil
		}
	}
	e.out, e.err = out, errText(err)
	return
}

// ---- execution ----

// sink is the writer handed to the code under test; Write copies (an io.Writer must not retain p)
type sink struct {
	mu  sync.Mutex
	buf []byte
}

func (s *sink) Write(p []byte) (int, error) {
	s.mu.Lock()
	s.buf = append(s.buf, p...)
	s.mu.Unlock()
	return len(p), nil
}

func (s *sink) bytes() []byte {
	s.mu.Lock()
	defer s.mu.Unlock()
	return s.buf
}

// chunkSrc delivers the chunks one per Read; no Bytes() method, so the minifier has to read it
type chunkSrc struct{ chunks [][]byte }

func (r *chunkSrc) Read(p []byte) (int, error) {
	if len(r.chunks) == 0 {
		return 0, io.EOF
	}
	c := r.chunks[0]
	n := copy(p, c)
	if n == len(c) {
		r.chunks = r.chunks[1:]
	} else {
		r.chunks[0] = c[n:]
	}
	return n, nil
}

// retained is everything kept from one call until the end of the history
type retained struct {
	thread, index, rep int
	st                 Step
	want               expect
	in                 []byte   // the slice handed to the code under test (caller's memory)
	chunks             [][]byte // sub-slices of in handed to Write / delivered by the source reader
	mimetype, mimeWas  []byte   // MinifyMimetype: the caller's mimetype slice and a private copy of it
	outB               []byte   // m.Bytes / helpers: the returned slice itself
	outS               string   // m.String
	isString           bool
	snk                *sink // Minify, MinifyMimetype, Writer
	rec                *httptest.ResponseRecorder
	parts              [][]byte // Reader: every buffer that was read into
	err                string
	atReturn           []byte // private copy of the result at the moment of return
	inAtReturn         []byte // helpers work in place: the argument as the call left it
	crash              string
}

// current reads the retained memory now
func (r *retained) current() []byte {
	switch {
	case r.isString:
		return []byte(r.outS)
	case r.snk != nil:
		return r.snk.bytes()
	case r.rec != nil:
		return r.rec.Body.Bytes()
	case r.parts != nil:
		var out []byte
		for _, p := range r.parts {
			out = append(out, p...)
		}
		return out
	}
	return r.outB
}

func cutChunks(in []byte, cut []int) [][]byte {
	var chunks [][]byte
	prev := 0
	for _, c := range cut {
		if c < prev || c > len(in) {
			continue
		}
		chunks = append(chunks, in[prev:c])
		prev = c
	}
	return append(chunks, in[prev:])
}

// run executes one step against m, keeping what it hands back
func run(m *minify.M, st Step, want expect) (r *retained) {
	r = &retained{st: st, want: want, in: clone(st.In)}
	defer func() {
		if p := recover(); p != nil {
			r.crash = fmt.Sprint("panic: ", p)
		}
	}()
	var err error
	switch st.Op {
	case OpBytes:
		r.outB, err = m.Bytes(st.MT, r.in)
	case OpString:
		r.isString = true
		r.outS, err = m.String(st.MT, string(r.in))
	case OpMinify:
		r.snk = &sink{}
		err = m.Minify(st.MT, r.snk, bytes.NewReader(r.in))
	case OpMimetype:
		r.snk = &sink{}
		mimetype, params := parse.Mediatype([]byte(st.MT))
		r.mimetype, r.mimeWas = mimetype, clone(mimetype)
		err = m.MinifyMimetype(mimetype, r.snk, bytes.NewReader(r.in), params)
	case OpReader:
		r.chunks = cutChunks(r.in, st.Cut)
		rd := m.Reader(st.MT, &chunkSrc{chunks: append([][]byte(nil), r.chunks...)})
		sizes := st.Read
		if len(sizes) == 0 {
			sizes = []int{512}
		}
		r.parts = [][]byte{}
		for i := 0; ; i++ {
			buf := make([]byte, max(1, sizes[i%len(sizes)]))
			n, e := rd.Read(buf)
			r.parts = append(r.parts, buf[:n]) // the caller's buffer itself is kept
			if e != nil {
				if e != io.EOF {
					err = e
				}
				break
			}
		}
	case OpWriter:
		r.snk = &sink{}
		r.chunks = cutChunks(r.in, st.Cut)
		wc := m.Writer(st.MT, r.snk)
		for _, c := range r.chunks {
			wc.Write(c)
		}
		err = wc.Close()
	case OpRespWriter:
		r.rec = httptest.NewRecorder()
		r.chunks = cutChunks(r.in, st.Cut)
		rw := m.ResponseWriter(r.rec, httptest.NewRequest("GET", "/", nil))
		r.rec.Header().Set("Content-Type", st.MT)
		for _, c := range r.chunks {
			rw.Write(c)
		}
		err = rw.Close()
	case OpMiddleware:
		r.rec = httptest.NewRecorder()
		r.chunks = cutChunks(r.in, st.Cut)
		var herr error
		hnd := m.MiddlewareWithError(http.HandlerFunc(func(w http.ResponseWriter, _ *http.Request) {
			w.Header().Set("Content-Type", st.MT)
			for _, c := range r.chunks {
				w.Write(c)
			}
		}), func(_ http.ResponseWriter, _ *http.Request, e error) { herr = e })
		hnd.ServeHTTP(r.rec, httptest.NewRequest("GET", "/", nil))
		err = herr
	case OpDataURI:
		r.outB = minify.DataURI(m, r.in)
	case OpMediatype:
		r.outB = minify.Mediatype(r.in)
	case OpNumber:
		r.outB = minify.Number(r.in, st.Prec)
	case OpDecimal:
		r.outB = minify.Decimal(r.in, st.Prec)
	}
	r.err = errText(err)
	r.atReturn = clone(r.current())
	r.inAtReturn = clone(r.in)
	return r
}

func q(b []byte) string {
	if len(b) > 160 {
		return strconv.QuoteToASCII(string(b[:160])) + fmt.Sprintf("…(%d bytes)", len(b))
	}
	return strconv.QuoteToASCII(string(b))
}

// verify compares the retained memory of one call with the oracle
func verify(hid, phase string, r *retained) (fs []Finding) {
	add := func(what string, got, want []byte) {
		fs = append(fs, Finding{Hist: hid, Thread: r.thread, Index: r.index, Rep: r.rep, Op: r.st.Op, MT: r.st.MT, What: what,
			Got: q(got), Want: q(want), AtReturn: q(r.atReturn), Phase: phase, Input: r.st.In})
	}
	if r.crash != "" {
		fs = append(fs, Finding{Hist: hid, Thread: r.thread, Index: r.index, Rep: r.rep, Op: r.st.Op, MT: r.st.MT, What: r.crash, Phase: phase, Crash: true, Input: r.st.In})
		return
	}
	cur := r.current()
	helper := isHelper(r.st.Op)
	ref := "the plain m.Minify call"
	if helper {
		ref = "an isolated call on a copy of the argument"
	}
	if !bytes.Equal(cur, r.want.out) {
		if bytes.Equal(r.atReturn, r.want.out) {
			add(r.st.Op+": the returned memory was equal to "+ref+" when the call returned but has been overwritten by a later call of the history", cur, r.want.out)
		} else {
			add(r.st.Op+": result differs from "+ref+" (already at return)", cur, r.want.out)
		}
	}
	if r.err != r.want.err {
		add(r.st.Op+": error differs from the plain call's error", []byte(r.err), []byte(r.want.err))
	}
	if helper {
		// helpers work in place on their argument; it must stay as the call left it
		if !bytes.Equal(r.in, r.inAtReturn) {
			add(r.st.Op+": the argument slice was changed by a later call on other memory", r.in, r.inAtReturn)
		}
		return
	}
	if !bytes.Equal(r.in, r.st.In) {
		add(r.st.Op+": the caller's input slice was modified", r.in, r.st.In)
	}
	if r.mimetype != nil && !bytes.Equal(r.mimetype, r.mimeWas) {
		add(r.st.Op+": the caller's mimetype slice was modified", r.mimetype, r.mimeWas)
	}
	return
}

// Kept is what one call's retained memory reads after the whole history (private copies)
type Kept struct {
	Out, In []byte
	Err     string
}

// Result of one history
type Result struct {
	Findings []Finding
	Calls    int
	Final    [][]Kept // per thread, per executed call
}

// Run executes the history on m.  All expectations are computed first (sequentially, through the plain call);
// then every thread runs its steps; a thread checks what it retained when it has finished its own sequence
// (other threads may still be running) and everything is checked once more after all threads have finished.
func Run(m *minify.M, hs History, timeout time.Duration) (res Result) {
	reps := max(1, hs.Reps)
	wants := make([][]expect, len(hs.Threads))
	for t, steps := range hs.Threads {
		wants[t] = make([]expect, len(steps))
		for i, st := range steps {
			wants[t][i] = Expect(m, st)
		}
	}
	if hs.Procs > 0 && len(hs.Threads) > 1 {
		defer runtime.GOMAXPROCS(runtime.GOMAXPROCS(hs.Procs))
	}
	kept := make([][]*retained, len(hs.Threads))
	own := make([][]Finding, len(hs.Threads))
	body := func(t int) {
		for rep := 0; rep < reps; rep++ {
			for i, st := range hs.Threads[t] {
				r := run(m, st, wants[t][i])
				r.thread, r.index, r.rep = t, i, rep
				kept[t] = append(kept[t], r)
			}
		}
		if len(hs.Threads) > 1 {
			for _, r := range kept[t] {
				own[t] = append(own[t], verify(hs.ID, "own-end", r)...)
			}
		}
	}
	done := make(chan struct{})
	go func() {
		defer close(done)
		if len(hs.Threads) == 1 {
			body(0)
			return
		}
		var wg sync.WaitGroup
		start := make(chan struct{})
		for t := range hs.Threads {
			wg.Add(1)
			go func(t int) {
				defer wg.Done()
				<-start
				body(t)
			}(t)
		}
		close(start)
		wg.Wait()
	}()
	select {
	case <-done:
	case <-time.After(timeout):
		res.Findings = append(res.Findings, Finding{Hist: hs.ID, What: fmt.Sprintf("history did not finish within %v (hang)", timeout), Crash: true, Phase: "end"})
		return
	}
	seen := map[[3]int]bool{}
	res.Final = make([][]Kept, len(hs.Threads))
	for t := range hs.Threads {
		res.Calls += len(kept[t])
		for _, r := range kept[t] {
			if r.crash == "" {
				res.Final[t] = append(res.Final[t], Kept{clone(r.current()), clone(r.in), r.err})
			}
			for _, f := range verify(hs.ID, "end", r) {
				seen[[3]int{f.Thread, f.Index, f.Rep}] = true
				res.Findings = append(res.Findings, f)
			}
		}
	}
	for t := range own {
		for _, f := range own[t] {
			if !seen[[3]int{f.Thread, f.Index, f.Rep}] {
				res.Findings = append(res.Findings, f)
			}
		}
	}
	return
}

// Describe renders a history for a report key.
func Describe(hs History) string {
	s := ""
	for t, steps := range hs.Threads {
		if t > 0 {
			s += " || "
		}
		for i, st := range steps {
			if i > 0 {
				s += "; "
			}
			in := st.In
			if len(in) > 40 {
				in = in[:40]
			}
			s += st.Op
			if st.MT != "" {
				s += "(" + st.MT + ")"
			}
			s += " " + strconv.QuoteToASCII(string(in))
			if len(st.In) > 40 {
				s += fmt.Sprintf("…%dB", len(st.In))
			}
		}
	}
	if hs.Reps > 1 {
		s += fmt.Sprintf(" x%d", hs.Reps)
	}
	return s
}

#!/usr/bin/env python3
"""Regenerates /verif/MANIFEST.json from meta/Cxx.manifest.json and /verif/known_findings.json from
meta/*.known.json (hand-maintained fragments, one per property so that work on different properties
never touches the same file)."""
import json, os, sys, glob
ROOT = os.path.dirname(os.path.dirname(os.path.abspath(__file__)))
props = [json.loads(l)["id"] for l in open(os.path.join(ROOT, "properties.jsonl"))]
hooks = json.load(open(os.path.join(ROOT, "meta", "_hooks.json")))
checks, na = [], []
for pid in props:
    p = os.path.join(ROOT, "meta", f"{pid}.manifest.json")
    e = json.load(open(p)) if os.path.exists(p) else None
    if not e or not e.get("claimed"):
        na.append({"property_id": pid, "reason": (e or {}).get("reason", "check not built yet; see DESIGN.md §5 for the planned model and theorems")})
        continue
    checks.append({
        "property_id": pid,
        "quick_cmd": f"./check {pid} --tier quick",
        "thorough_cmd": f"./check {pid} --tier thorough",
        "evidence_file": f"/verif/evidence/{pid}.json",
        "replay_cmd_template": f"./check {pid} --replay {{path}}",
        "engine": "lean-proof+correspondence",
        "level_claimed": {"category": "proof", "text": e["text"], "design_ref": e.get("design_ref", f"DESIGN.md §5 {pid}, docs/{pid}.md")},
        "level_note": e["note"],
        "technique": e["technique"],
    })
m = {
    "version": 1,
    "setup_cmd": "./setup.sh",
    "hooks": {
        "guard": "verif",
        "enable": "go build -tags verif (the harness module replaces github.com/tdewolff/minify/v2 by /repo)",
        "baseline_off_cmd": "cd /repo && go test -mod=mod -json -vet=off -count=1 -timeout 25m ./...",
        "source_commits": hooks.get("hook_commits", []),
        "add_only": True,
    },
    "engines": [
        {"name": "lean-proof+correspondence", "path": "/verif/check", "serves_properties": [c["property_id"] for c in checks],
         "kind_free_text": "Lean 4 theorems about executable models (lean/Verif), regenerated tables/facts (harness/cmd/extract), correspondence of model and /repo through the compiled driver vdrv (harness/cmd/corr)"},
    ],
    "checks": checks,
    "not_applicable": na,
    "notes": "All checks rebuild against /repo's working tree (translator + go build -tags verif). Known findings: /verif/known_findings.json. Seeded changes and which checks catch them: DESIGN.md §10.",
}
json.dump(m, open(os.path.join(ROOT, "MANIFEST.json"), "w"), indent=1)
known = []
for f in sorted(glob.glob(os.path.join(ROOT, "meta", "*.known.json"))):
    known += json.load(open(f))
json.dump(known, open(os.path.join(ROOT, "known_findings.json"), "w"), indent=1)
print(f"MANIFEST.json: {len(checks)} checks, {len(na)} not claimed; known_findings.json: {len(known)} entries")

#!/bin/sh
# run every claimed check (quick tier by default) on the unchanged tree; prints one summary line per property
cd "$(dirname "$0")/.."
TIER="${1:-quick}"
for p in $(python3 -c "import json;print(' '.join(c['property_id'] for c in json.load(open('MANIFEST.json'))['checks']))"); do
  out=$(./check $p --tier $TIER 2>&1); rc=$?
  echo "$p rc=$rc $(echo "$out" | tail -1)"
  echo "$out" | grep "^VIOLATION" | head -3
done

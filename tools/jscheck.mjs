// Syntax-only check of JavaScript sources with V8 (no execution).
// stdin: one JSON object per line {"id":n,"src":"…","module":bool}; stdout: {"id":n,"ok":bool,"err":"…"} per line.
// Run with: node --experimental-vm-modules tools/jscheck.mjs
import vm from 'node:vm';
import readline from 'node:readline';
const rl = readline.createInterface({ input: process.stdin, crlfDelay: Infinity });
for await (const line of rl) {
  if (!line.trim()) continue;
  let req;
  try { req = JSON.parse(line); } catch (e) { continue; }
  let ok = true, err = '';
  try {
    if (req.module) { new vm.SourceTextModule(req.src); } else { new vm.Script(req.src); }
  } catch (e) {
    if (!req.module && /import|export/.test(String(e.message)) ) {
      try { new vm.SourceTextModule(req.src); } catch (e2) { ok = false; err = String(e2.name + ': ' + e2.message); }
    } else { ok = false; err = String(e.name + ': ' + e.message); }
  }
  process.stdout.write(JSON.stringify({ id: req.id, ok, err }) + '\n');
}

// jsnum.mjs — batch evaluator used by the C01N runner (harness/cmd/corr/c01n.go).
// stdin: a JSON array of JavaScript expression sources; stdout: a JSON array of the same length with
// `typeof v + ":" + String(v)` for each, or `error:<ErrorName>` when parsing/evaluating throws.
// Sources are evaluated in sloppy mode by indirect eval (legacy octal literals are legal there).
import { readFileSync } from "node:fs";
const src = JSON.parse(readFileSync(0, "utf8"));
const out = new Array(src.length);
const geval = eval;
for (let i = 0; i < src.length; i++) {
  try {
    const v = geval("(" + src[i] + "\n)");
    out[i] = typeof v + ":" + (Object.is(v, -0) ? "-0" : String(v));
  } catch (e) {
    out[i] = "error:" + (e && e.name ? e.name : "unknown");
  }
}
process.stdout.write(JSON.stringify(out));

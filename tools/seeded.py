#!/usr/bin/env python3
"""Seeded-change bookkeeping.

  tools/seeded.py import <ID> <mN>          copy /tmp/mut/<ID>-out/<mN> to /verif/seeded/<ID>-<mN>/ (patch.diff, demo, meta.json)
  tools/seeded.py verify <name>             in a scratch worktree of /repo: patch applies, builds, whole suite passes with it,
                                            demo fails with it and passes without it; result recorded in meta.json["verified"]
  tools/seeded.py run <name> [Cxx ...]      apply the patch to /repo, run ./check for the given properties (default: the property
                                            it breaks), undo the patch; outcome recorded in meta.json["checks"]
"""
import sys, os, json, subprocess, shutil, re, glob, tempfile

ROOT = os.path.dirname(os.path.dirname(os.path.abspath(__file__)))
ENV = dict(os.environ, GOFLAGS="-mod=mod", GOPROXY="off", GOSUMDB="off", GOTOOLCHAIN="local")
PKGDIR = {"minify": ".", "minify_test": ".", "html": "html", "css": "css", "js": "js", "json": "json", "svg": "svg", "xml": "xml", "main": "cmd/minify"}


def sh(cmd, cwd=None, timeout=1800):
    p = subprocess.run(cmd, cwd=cwd, env=ENV, stdout=subprocess.PIPE, stderr=subprocess.STDOUT, text=True, timeout=timeout, shell=isinstance(cmd, str))
    return p.returncode, p.stdout


def sdir(name):
    return os.path.join(ROOT, "seeded", name)


def load_meta(name):
    p = os.path.join(sdir(name), "meta.json")
    return json.load(open(p)) if os.path.exists(p) else {}


def save_meta(name, m):
    json.dump(m, open(os.path.join(sdir(name), "meta.json"), "w"), indent=1)


def cmd_import(pid, m):
    src = f"/tmp/mut/{pid}-out/{m}"
    dst = sdir(f"{pid}-{m}")
    if os.path.exists(dst):
        shutil.rmtree(dst)
    shutil.copytree(src, dst)
    print("imported", dst, os.listdir(dst))


def demo_plan(name):
    """returns list of (relative dest path in repo, source file) and the go test command"""
    d = sdir(name)
    tests = glob.glob(os.path.join(d, "*_test.go"))
    if tests:
        src = tests[0]
        txt = open(src).read()
        pkg = re.search(r"^package\s+(\w+)", txt, re.M).group(1)
        m = re.search(r"(?:copy|place|put|copied)[^\n]*?\b((?:cmd/minify|html|css|js|json|svg|xml)/)", txt[:1500])
        rel = PKGDIR.get(pkg, PKGDIR.get(pkg[:-5], ".") if pkg.endswith("_test") else ".")
        if pkg in ("minify", "minify_test") and m:
            rel = m.group(1).rstrip("/")
        names = re.findall(r"^func (Test\w+)\(", txt, re.M)
        return "test", rel, src, "^(" + "|".join(names) + ")$"
    mains = glob.glob(os.path.join(d, "demo", "main.go")) + glob.glob(os.path.join(d, "demo", "*.go"))
    if mains:
        return "main", os.path.join(d, "demo"), None, None
    return None, None, None, None


def run_demo(wt, name):
    kind, rel, src, pat = demo_plan(name)
    if kind == "test":
        dst = os.path.join(wt, rel, "zz_seeded_demo_test.go")
        shutil.copy(src, dst)
        try:
            rc, out = sh(["go", "test", "-vet=off", "-count=1", "-run", pat, "./" + rel], cwd=wt)
        finally:
            os.remove(dst)
        return rc, out[-1500:]
    if kind == "main":
        # a small program in its own module dir: build a module that replaces minify by the worktree
        tmp = tempfile.mkdtemp(prefix="seeded-demo-")
        try:
            for f in glob.glob(os.path.join(rel, "*")):
                if os.path.isfile(f):
                    shutil.copy(f, tmp)
            gm = os.path.join(tmp, "go.mod")
            if os.path.exists(gm):
                # the demo brought its own module file (extra requirements from the module cache): point its replace at our worktree
                txt = re.sub(r"(replace github.com/tdewolff/minify/v2 => )\S+", lambda m: m.group(1) + wt, open(gm).read())
                open(gm, "w").write(txt)
            else:
                open(gm, "w").write(f"module seededdemo\ngo 1.23\nrequire github.com/tdewolff/minify/v2 v2.0.0\nreplace github.com/tdewolff/minify/v2 => {wt}\n")
                shutil.copy(os.path.join(wt, "go.sum"), tmp)
            rc, out = sh(["go", "run", "."], cwd=tmp, timeout=600)
        finally:
            shutil.rmtree(tmp, ignore_errors=True)
        return rc, out[-1500:]
    return None, "no demo found"


def cmd_verify(name):
    meta = load_meta(name)
    wt = tempfile.mkdtemp(prefix="seeded-wt-")
    os.rmdir(wt)
    rc, out = sh(["git", "-C", "/repo", "worktree", "add", "-q", "--detach", wt, "HEAD"])
    res = {}
    try:
        rc0, out0 = run_demo(wt, name)
        res["demo_without_patch"] = {"rc": rc0, "tail": out0[-400:]}
        rc, out = sh(["git", "apply", os.path.join(sdir(name), "patch.diff")], cwd=wt)
        res["applies"] = rc == 0
        if rc != 0:
            res["apply_error"] = out[-500:]
        else:
            rc, out = sh("go build ./... && go vet ./... >/dev/null 2>&1; go test -vet=off -count=1 ./...", cwd=wt)
            res["suite_passes_with_patch"] = rc == 0 and "FAIL" not in out
            if not res["suite_passes_with_patch"]:
                res["suite_tail"] = out[-800:]
            rc1, out1 = run_demo(wt, name)
            res["demo_with_patch"] = {"rc": rc1, "tail": out1[-600:]}
        res["confirmed"] = bool(res.get("applies") and res.get("suite_passes_with_patch") and rc0 == 0 and res["demo_with_patch"]["rc"] not in (0, None))
    finally:
        sh(["git", "-C", "/repo", "worktree", "remove", "--force", wt])
    meta["verified"] = res
    save_meta(name, meta)
    print(json.dumps(res, indent=1)[:1500])
    return 0 if res["confirmed"] else 1


def cmd_run(name, props):
    """the patch is applied in a scratch worktree of /repo and the checks are pointed at it (VERIF_REPO), so that /repo itself —
    which other sessions build against — is never modified; the worktree is removed afterwards"""
    meta = load_meta(name)
    if not props:
        props = [meta.get("property") or name.split("-")[0]]
    wt = tempfile.mkdtemp(prefix="seeded-run-")
    os.rmdir(wt)
    rc, out = sh(["git", "-C", "/repo", "worktree", "add", "-q", "--detach", wt, "HEAD"])
    if rc != 0:
        print("cannot create worktree:\n" + out)
        return 2
    results = meta.setdefault("checks", {})
    try:
        rc, out = sh(["git", "apply", os.path.join(sdir(name), "patch.diff")], cwd=wt)
        if rc != 0:
            print("patch does not apply to /repo HEAD:\n" + out)
            return 2
        for p in props:
            p0 = subprocess.run([os.path.join(ROOT, "check"), p], cwd=ROOT, env=dict(ENV, VERIF_REPO=wt), stdout=subprocess.PIPE, stderr=subprocess.STDOUT, text=True, timeout=7200)
            rc, out = p0.returncode, p0.stdout
            lines = out.strip().splitlines()
            viol = [l for l in lines if l.startswith("VIOLATION")]
            detail = [l for l in lines if l.startswith("  fail:") or l.startswith("  diff:") or l.startswith("BROKEN")][:3]
            results[p] = {"exit": rc, "violation_lines": viol[:3], "detail": [d[:400] for d in detail], "summary": lines[-1] if lines else ""}
            kind = "MISSED" if rc == 0 else ("caught (failing input)" if any("no-failing-input-found" not in v for v in viol) else "caught (no-failing-input-found)")
            if rc not in (0, 1):
                kind = "ERROR"
            results[p]["outcome"] = kind
            print(f"{name} vs {p}: {kind} :: {lines[-1] if lines else ''}")
            for d in detail[:2]:
                print("   ", d[:300])
    finally:
        sh(["git", "-C", "/repo", "worktree", "remove", "--force", wt])
        # evidence and regenerated files written by these runs describe the changed tree: restore the committed ones
        sh("git checkout -- evidence lean/Verif/Gen", cwd=ROOT)
    save_meta(name, meta)
    return 0


if __name__ == "__main__":
    a = sys.argv[1:]
    if not a:
        print(__doc__); sys.exit(2)
    if a[0] == "import":
        cmd_import(a[1], a[2])
    elif a[0] == "verify":
        sys.exit(cmd_verify(a[1]))
    elif a[0] == "run":
        sys.exit(cmd_run(a[1], a[2:]))

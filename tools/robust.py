#!/usr/bin/env python3
"""Harmless-rewrite robustness rig for the translator (harness/cmd/extract).

  tools/robust.py list                                 list the catalogue
  tools/robust.py run [-k substr] [-g generator] [--tests] [--check] [--keep] [-o report.md]
                                                       apply every (selected) rewrite of tools/robust_rewrites/*.py to ONE scratch
                                                       worktree of /repo, run `go build ./... && go vet ./...` (and with --tests the
                                                       packages a rewrite names in `tests`), run the translator on it and diff
                                                       lean/Verif/Gen against the output for the unmodified tree; for every rewrite that
                                                       changes (or breaks) a generated file the Props modules that import it are re-built
                                                       against the changed files (`lake build`), with --check the whole `./check Cxx`
                                                       (VERIF_REPO=<worktree>) is run instead.

Outcome per rewrite x generated file:
  identical            generated file byte-identical
  changed/pass         generated file differs, every dependent Props module still builds (theorems re-checked)
  BREAKS               generator failed or a dependent Props module no longer builds
For `expect: invariant` rewrites BREAKS is a false alarm of the framework; for `expect: changes` rewrites (controls: they
alter behaviour relevant to a property) `identical` is blindness.  Exit status 1 when either occurs.

The scratch worktree is /tmp/robust-wt (removed at the end unless --keep); all other scratch files live under out/robust/.
"""
import sys, os, re, json, subprocess, shutil, glob, importlib.util, argparse, time

ROOT = os.path.dirname(os.path.dirname(os.path.abspath(__file__)))
WT = os.environ.get("ROBUST_WT", "/tmp/robust-wt")
OUT = os.path.join(ROOT, "out", os.environ.get("ROBUST_OUT", "robust"))
GEN = os.path.join(ROOT, "lean", "Verif", "Gen")
LEAN = os.path.join(ROOT, "lean")
ENV = dict(os.environ, GOFLAGS="-mod=mod", GOPROXY="off", GOSUMDB="off", GOTOOLCHAIN="local")
CATDIR = os.path.join(ROOT, "tools", "robust_rewrites")
EXTRACT = os.path.join(ROOT, "harness", "bin", "extract")

# generated file -> the generator source file that writes it (for the report)
GENFILE_OWNER = {}


def sh(cmd, cwd=None, env=None, timeout=3600):
    p = subprocess.run(cmd, cwd=cwd, env=env or ENV, stdout=subprocess.PIPE, stderr=subprocess.STDOUT, text=True,
                       timeout=timeout, shell=isinstance(cmd, str))
    return p.returncode, p.stdout


class NoMatch(Exception):
    pass


class RW:
    """edit helpers handed to a rewrite; every helper asserts that what it edits is there (a rewrite that no longer applies to
    /repo HEAD is reported as such, not silently skipped)"""

    def __init__(self, root):
        self.root = root

    def path(self, rel):
        return os.path.join(self.root, rel)

    def read(self, rel):
        return open(self.path(rel)).read()

    def write(self, rel, txt):
        os.makedirs(os.path.dirname(self.path(rel)), exist_ok=True)
        open(self.path(rel), "w").write(txt)

    def sub(self, rel, old, new, count=1):
        """replace exactly `count` occurrences (count=0: all, at least one) of the literal text old"""
        t = self.read(rel)
        n = t.count(old)
        if n == 0 or (count and n != count):
            raise NoMatch(f"{rel}: expected {count or '>=1'} occurrence(s) of {old!r}, found {n}")
        self.write(rel, t.replace(old, new))

    def sub1(self, rel, old, new):
        """replace the first occurrence only"""
        t = self.read(rel)
        if old not in t:
            raise NoMatch(f"{rel}: {old!r} not found")
        self.write(rel, t.replace(old, new, 1))

    def resub(self, rel, pat, repl, count=1, flags=re.M):
        t = self.read(rel)
        t2, n = re.subn(pat, repl, t, flags=flags)
        if n == 0 or (count and n != count):
            raise NoMatch(f"{rel}: expected {count or '>=1'} match(es) of /{pat}/, found {n}")
        self.write(rel, t2)

    def append(self, rel, txt):
        self.write(rel, self.read(rel).rstrip("\n") + "\n\n" + txt.strip("\n") + "\n")

    def gofiles(self, d):
        return sorted(os.path.relpath(f, self.root) for f in glob.glob(os.path.join(self.root, d, "*.go"))
                      if not f.endswith("_test.go"))

    def allgofiles(self, d):
        return sorted(os.path.relpath(f, self.root) for f in glob.glob(os.path.join(self.root, d, "*.go")))

    def rename(self, d, old, new, tests=True):
        """rename an identifier (word-boundary, not preceded by '.') in all Go files of a package directory"""
        n = 0
        for f in (self.allgofiles(d) if tests else self.gofiles(d)):
            t = self.read(f)
            t2, k = re.subn(r"(?<![\w.])" + re.escape(old) + r"\b", new, t)
            if k:
                self.write(f, t2)
                n += k
        if n == 0:
            raise NoMatch(f"{d}: identifier {old} not found")

    def rename_sel(self, d, old, new, tests=True):
        """rename a field / method: every `.old` selector and every declaration `old ` in struct bodies is the caller's business;
        this only rewrites `.old\\b`"""
        n = 0
        for f in (self.allgofiles(d) if tests else self.gofiles(d)):
            t = self.read(f)
            t2, k = re.subn(r"\." + re.escape(old) + r"\b", "." + new, t)
            if k:
                self.write(f, t2)
                n += k
        if n == 0:
            raise NoMatch(f"{d}: selector .{old} not found")

    def func_span(self, rel, header_re):
        """(start, end) of a top-level func whose first line matches header_re (gofmt layout: body ends at the next line `}`)"""
        t = self.read(rel)
        m = re.search(r"^func " + header_re + r"[^\n]*\{\n", t, re.M)
        if not m:
            raise NoMatch(f"{rel}: func /{header_re}/ not found")
        e = t.index("\n}\n", m.end() - 1) + 3
        return t, m.start(), e

    def in_func(self, rel, header_re, old, new, count=1, regex=False):
        """literal (or regex) replacement restricted to one top-level function"""
        t, s, e = self.func_span(rel, header_re)
        body = t[s:e]
        if regex:
            body2, n = re.subn(old, new, body)
        else:
            n = body.count(old)
            body2 = body.replace(old, new)
        if n == 0 or (count and n != count):
            raise NoMatch(f"{rel}: func /{header_re}/: expected {count or '>=1'} occurrence(s) of {old!r}, found {n}")
        self.write(rel, t[:s] + body2 + t[e:])

    def rename_in_func(self, rel, header_re, old, new):
        self.in_func(rel, header_re, r"(?<![\w.])" + re.escape(old) + r"\b", new, count=0, regex=True)

    def move_func(self, rel, header_re, dst):
        """move a top-level function (with its doc comment) to another file of the same package"""
        t, s, e = self.func_span(rel, header_re)
        # include the preceding comment block
        lines = t[:s].split("\n")
        k = len(lines) - 1
        while k > 0 and lines[k - 1].startswith("//"):
            k -= 1
        s2 = len("\n".join(lines[:k])) + (1 if k > 0 else 0)
        block = t[s2:e]
        self.write(rel, t[:s2] + t[e:])
        self.ensure_file(dst, os.path.dirname(rel))
        self.append(dst, block)

    def ensure_file(self, rel, pkgdir):
        if not os.path.exists(self.path(rel)):
            pk = re.search(r"^package (\w+)", self.read(self.gofiles(pkgdir)[0]), re.M).group(1)
            self.write(rel, f"package {pk}\n")

    def decl_span(self, rel, start_re):
        """span of a top-level `var|const|type X = …` / `var (…)` declaration starting at a line matching start_re and ending
        at the first following line that is `}` or `)` in column 0 (or the same line when it does not open a block)"""
        t = self.read(rel)
        m = re.search(start_re, t, re.M)
        if not m:
            raise NoMatch(f"{rel}: declaration /{start_re}/ not found")
        ls = t.rfind("\n", 0, m.start()) + 1
        le = t.index("\n", m.start())
        first = t[ls:le]
        if first.rstrip().endswith(("{", "(")) or first.rstrip().endswith("+"):
            m2 = re.compile(r"^[})].*$", re.M).search(t, le)
            e = m2.end() + 1
        else:
            e = le + 1
        return t, ls, e

    def move_decl(self, rel, start_re, dst):
        t, s, e = self.decl_span(rel, start_re)
        block = t[s:e]
        self.write(rel, t[:s] + t[e:])
        self.ensure_file(dst, os.path.dirname(rel))
        self.append(dst, block)

    def add_imports(self, rel, *paths):
        t = self.read(rel)
        for p in paths:
            if f'"{p}"' in t:
                continue
            if re.search(r"^import \(\n", t, re.M):
                t = re.sub(r"^import \(\n", f'import (\n\t"{p}"\n', t, count=1, flags=re.M)
            else:
                t = re.sub(r"^(package \w+\n)", rf'\1\nimport "{p}"\n', t, count=1, flags=re.M)
        self.write(rel, t)

    def gofmt(self, *rels):
        for r in rels:
            rc, out = sh(["gofmt", "-w", self.path(r)])
            if rc != 0:
                raise NoMatch(f"gofmt {r}: {out}")


class R:
    def __init__(self, name, targets, expect, cls, desc, fn, tests=None, known=None):
        """known: for an `invariant` rewrite that the translator deliberately does not tolerate — the reason (docs/ROBUSTNESS.md);
        BREAKS is then the documented outcome and not counted as unexpected"""
        assert expect in ("invariant", "changes")
        self.name, self.targets, self.expect, self.cls, self.desc, self.fn, self.tests = name, targets, expect, cls, desc, fn, tests or []
        self.known = known


def load_catalogue():
    rs = []
    for f in sorted(glob.glob(os.path.join(CATDIR, "*.py"))):
        spec = importlib.util.spec_from_file_location("rr_" + os.path.basename(f)[:-3], f)
        mod = importlib.util.module_from_spec(spec)
        mod.R = R
        mod.NoMatch = NoMatch
        spec.loader.exec_module(mod)
        for r in mod.REWRITES:
            r.file = os.path.basename(f)
            rs.append(r)
    names = [r.name for r in rs]
    dup = {n for n in names if names.count(n) > 1}
    if dup:
        sys.exit(f"duplicate rewrite names: {sorted(dup)}")
    return rs


def gen_owner_map():
    m = {}
    for f in glob.glob(os.path.join(ROOT, "harness", "cmd", "extract", "c*.go")):
        for g in re.findall(r'\bgen\("(\w+)"', open(f).read()):
            m[g] = os.path.basename(f)[:-3]
    return m


def importers():
    """generated module -> Props modules (Cxx) that transitively import it"""
    files = glob.glob(os.path.join(LEAN, "Verif", "**", "*.lean"), recursive=True)
    imp = {}
    for f in files:
        mod = os.path.relpath(f, LEAN)[:-5].replace("/", ".")
        imp[mod] = set(re.findall(r"^import (Verif\.\S+)", open(f).read(), re.M))
    rev = {}
    for m, deps in imp.items():
        for d in deps:
            rev.setdefault(d, set()).add(m)
    out = {}
    for g in [m for m in imp if m.startswith("Verif.Gen.")] + ["Verif.Gen." + k for k in GENFILE_OWNER]:
        seen, todo = set(), [g]
        while todo:
            x = todo.pop()
            for y in rev.get(x, ()):
                if y not in seen:
                    seen.add(y)
                    todo.append(y)
        out[g.split(".")[-1]] = sorted(p.split(".")[-1] for p in seen if p.startswith("Verif.Props."))
    return out


def wt_reset():
    sh(["git", "checkout", "-q", "--", "."], cwd=WT)
    sh(["git", "clean", "-fdq"], cwd=WT)


def wt_create():
    wt_remove()
    rc, out = sh(["git", "-C", "/repo", "worktree", "add", "-q", "--detach", WT, "HEAD"])
    if rc != 0:
        sys.exit("cannot create worktree: " + out)


def wt_remove():
    if os.path.exists(WT):
        sh(["git", "-C", "/repo", "worktree", "remove", "--force", WT])
    sh(["git", "-C", "/repo", "worktree", "prune"])
    shutil.rmtree(WT, ignore_errors=True)


def extract(outdir):
    shutil.rmtree(outdir, ignore_errors=True)
    os.makedirs(outdir)
    rc, out = sh([EXTRACT, "-repo", WT, "-out", outdir])
    failed = dict(re.findall(r"^FAILED (\S+): (.*)$", out, re.M))
    return failed


def gen_files(d):
    return {os.path.basename(f)[:-5]: open(f).read() for f in glob.glob(os.path.join(d, "*.lean"))}


def install_gen(d):
    for f in glob.glob(os.path.join(d, "*.lean")):
        dst = os.path.join(GEN, os.path.basename(f))
        if not os.path.exists(dst) or open(dst).read() != open(f).read():
            shutil.copy(f, dst)


def lake_props(props):
    res = {}
    for p in props:
        rc, out = sh(["lake", "build", f"Verif.Props.{p}"], cwd=LEAN, timeout=3600)
        errs = re.findall(r"error: (\S+\.lean:\d+:\d+: .*)", out)
        res[p] = (rc == 0, errs[:3])
    return res


def run_check(props):
    res = {}
    for p in props:
        pr = subprocess.run([os.path.join(ROOT, "check"), p], cwd=ROOT, env=dict(ENV, VERIF_REPO=WT), stdout=subprocess.PIPE,
                            stderr=subprocess.STDOUT, text=True, timeout=7200)
        viol = [l for l in pr.stdout.splitlines() if l.startswith("VIOLATION")]
        res[p] = (pr.returncode == 0, viol[:2] or pr.stdout.strip().splitlines()[-1:])
    return res


def main():
    ap = argparse.ArgumentParser()
    ap.add_argument("cmd", choices=["list", "run"])
    ap.add_argument("-k", default="")
    ap.add_argument("-g", default="")
    ap.add_argument("--tests", action="store_true", help="also run `go test` for the packages a rewrite names")
    ap.add_argument("--check", action="store_true", help="run the whole ./check (VERIF_REPO) instead of only lake build for changed files")
    ap.add_argument("--keep", action="store_true")
    ap.add_argument("--no-lake", action="store_true", help="only diff the generated files")
    ap.add_argument("--lean-copy", action="store_true", help="build in a private copy of lean/ (out/robust/lean) so that the worktree's lean/ stays usable meanwhile")
    ap.add_argument("--extract", default="", help="use this translator binary instead of building harness/cmd/extract (e.g. an older one, for a before/after table)")
    ap.add_argument("-o", default=os.path.join(OUT, "report.md"))
    a = ap.parse_args()
    GENFILE_OWNER.update(gen_owner_map())
    cat = [r for r in load_catalogue() if a.k in r.name and (not a.g or a.g in r.targets)]
    if a.cmd == "list":
        for r in cat:
            print(f"{r.name:44s} {r.expect:9s} {','.join(r.targets):24s} {r.cls}: {r.desc}")
        print(len(cat), "rewrites")
        return 0
    os.makedirs(OUT, exist_ok=True)
    global LEAN, GEN, EXTRACT
    if a.extract:
        EXTRACT = os.path.abspath(a.extract)
    else:
        EXTRACT = os.path.join(OUT, "extract")
        rc, out = sh(["go", "build", "-o", EXTRACT, "./cmd/extract"], cwd=os.path.join(ROOT, "harness"))
        if rc != 0:
            sys.exit("translator does not build:\n" + out)
    if a.lean_copy and not a.no_lake:
        dst = os.path.join(OUT, "lean")
        rc, out = sh(["rsync", "-a", "--delete", "--exclude", "DriverAlt", LEAN + "/", dst + "/"])
        if rc != 0:
            sys.exit("cannot copy lean/: " + out)
        LEAN, GEN = dst, os.path.join(dst, "Verif", "Gen")
    wt_create()
    rows, bad = [], 0
    try:
        head = sh(["git", "rev-parse", "--short", "HEAD"], cwd=WT)[1].strip()
        base_dir = os.path.join(OUT, "base")
        bf = extract(base_dir)
        if bf:
            sys.exit(f"translator fails on the unmodified tree: {bf}")
        base = gen_files(base_dir)
        imps = importers()
        install_gen(base_dir)
        base_ok = {}
        if not a.no_lake and not a.check:
            allp = sorted({p for g in base for p in imps.get(g, [])})
            base_ok = {p: ok for p, (ok, _) in lake_props(allp).items()}
            for p, ok in base_ok.items():
                if not ok:
                    print(f"NOTE: Verif.Props.{p} does not build on the unmodified tree; it is left out of the verdicts")
        for r in cat:
            t0 = time.time()
            wt_reset()
            row = {"name": r.name, "targets": r.targets, "expect": r.expect, "cls": r.cls, "desc": r.desc, "files": {}, "note": ""}
            rows.append(row)
            try:
                r.fn(RW(WT))
            except (NoMatch, AssertionError, ValueError, KeyError, IndexError) as e:
                row["status"] = "DOES-NOT-APPLY"
                row["note"] = f"{type(e).__name__}: {e}"
                bad += 1
                print(f"{r.name}: does not apply: {e}")
                continue
            rc, out = sh("go build ./... && go vet -composites=false ./...", cwd=WT)  # the unmodified tree only passes vet without the composites analyser
            if rc != 0:
                row["status"] = "DOES-NOT-BUILD"
                row["note"] = out[-600:]
                bad += 1
                print(f"{r.name}: go build/vet fails:\n{out[-600:]}")
                continue
            if a.tests and r.tests:
                rc, out = sh(["go", "test", "-vet=off", "-count=1"] + r.tests, cwd=WT)
                row["tests"] = "pass" if rc == 0 else "FAIL"
                if rc != 0 and r.expect == "invariant":
                    row["note"] += " test suite fails: " + out[-300:]
                    bad += 1
            od = os.path.join(OUT, "gen-" + r.name)
            failed = extract(od)
            now = gen_files(od)
            changed = sorted(g for g in base if g not in failed and now.get(g) != base[g])
            for g in failed:
                row["files"][g] = "BREAKS (generator: " + failed[g][:160] + ")"
            props = sorted({p for g in list(changed) + list(failed) for p in imps.get(g, []) if base_ok.get(p, True)})
            if changed and not a.no_lake:
                install_gen(od)
                res = run_check(props) if a.check else lake_props(props)
                install_gen(base_dir)
                for g in changed:
                    brk = [p for p in imps.get(g, []) if p in res and not res[p][0]]
                    if brk:
                        row["files"][g] = "BREAKS (" + ", ".join(f"{p}: {'; '.join(res[p][1])[:200]}" for p in brk) + ")"
                    else:
                        row["files"][g] = "changed/pass"
            elif changed:
                for g in changed:
                    row["files"][g] = "changed (not built)"
            breaks = [g for g, v in row["files"].items() if v.startswith("BREAKS")]
            if r.expect == "invariant":
                row["status"] = "BREAKS" if breaks else ("changed/pass" if changed else "identical")
                if breaks and r.known:
                    row["status"] = "BREAKS (documented limitation: " + r.known + ")"
                elif breaks:
                    bad += 1
            else:
                row["status"] = "caught" if breaks else ("changed (theorems pass)" if changed else "BLIND")
                if not breaks and not changed:
                    bad += 1
            if not a.keep:
                shutil.rmtree(od, ignore_errors=True)
            print(f"{r.name:44s} {r.expect:9s} -> {row['status']:24s} {json.dumps(row['files']) if row['files'] else ''}  [{time.time() - t0:.0f}s]")
            sys.stdout.flush()
    finally:
        if not a.no_lake:
            install_gen(os.path.join(OUT, "base")) if os.path.exists(os.path.join(OUT, "base")) else None
        if not a.keep:
            wt_remove()
    json.dump({"repo_head": head, "rows": rows}, open(os.path.join(OUT, "report.json"), "w"), indent=1)
    with open(a.o, "w") as f:
        f.write(f"Robustness run against /repo {head}: {len(rows)} rewrites, {bad} unexpected outcome(s)\n\n")
        f.write("| rewrite | class | targets | expect | outcome | generated files affected |\n|---|---|---|---|---|---|\n")
        for r in rows:
            files = "; ".join(f"{g} ({GENFILE_OWNER.get(g, '?')}): {v}" for g, v in sorted(r["files"].items()))
            f.write(f"| `{r['name']}` | {r['cls']} | {','.join(r['targets'])} | {r['expect']} | {r.get('status')} | {files or r['note'][:200]} |\n")
    print(f"{len(rows)} rewrites, {bad} unexpected outcome(s); report: {a.o}")
    return 1 if bad else 0


if __name__ == "__main__":
    sys.exit(main())

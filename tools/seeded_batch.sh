#!/bin/sh
# usage: tools/seeded_batch.sh C02 C14 ...   imports m3..m5 of each, verifies and runs them; log on stdout
export GOFLAGS=-mod=mod GOPROXY=off GOSUMDB=off GOTOOLCHAIN=local
cd "$(dirname "$0")/.."
for p in "$@"; do
  for m in ${SEEDED_MS:-m3 m4 m5 m6}; do
    [ -d /tmp/mut/$p-out/$m ] || continue
    python3 tools/seeded.py import $p $m >/dev/null
    v=$(python3 tools/seeded.py verify $p-$m 2>&1 | grep '"confirmed"')
    echo "$p-$m verify: $v"
    python3 tools/seeded.py run $p-$m 2>&1 | tail -3
  done
  git -C /repo worktree remove --force /tmp/mut/$p-wt 2>/dev/null
done

#!/usr/bin/env python3
"""Behaviour-preserving rewrites of /repo ("harmless" changes) against the checks: every check must stay silent.

  tools/harmless.py import <ID> <rN>     copy /tmp/mut/<ID>-out/<rN> to harmless/<ID>-<rN>/ (patch.diff, meta.json)
  tools/harmless.py run <name> [Cxx ...] in a scratch worktree of /repo: apply the patch, build (+ -tags verif), whole suite; then
                                         VERIF_REPO=<worktree> ./check Cxx for the given properties (default: those anchored in the
                                         packages the patch touches); outcome per property recorded in meta.json["checks"]:
                                         silent | ALARM (failing input) | alarm (no-failing-input-found) | ERROR
  tools/harmless.py table                regenerate the table of DESIGN.md §12
Runs from any worktree of /verif (uses its own lean/, harness/, out/)."""
import sys, os, json, subprocess, shutil, tempfile, glob

ROOT = os.path.dirname(os.path.dirname(os.path.abspath(__file__)))
ENV = dict(os.environ, GOFLAGS="-mod=mod", GOPROXY="off", GOSUMDB="off", GOTOOLCHAIN="local")
BY_DIR = {
    "html/": ["C03", "C09", "C10", "C11", "C13", "C14", "C16", "C17"],
    "js/": ["C01", "C02", "C09", "C10", "C13", "C14", "C16"],
    "css/": ["C04", "C09", "C10", "C11", "C13", "C14", "C16", "C17"],
    "svg/": ["C05", "C09", "C10", "C11", "C13", "C14", "C16", "C17"],
    "xml/": ["C06", "C09", "C10", "C13", "C14", "C16", "C17"],
    "json/": ["C07", "C09", "C10", "C14", "C16"],
    "cmd/minify/": ["C19", "C20", "C16"],
    "": ["C08", "C07", "C10", "C11", "C12", "C13", "C14", "C15", "C18", "C16"],   # root package
}


def sh(cmd, cwd=None, env=ENV, timeout=7200):
    p = subprocess.run(cmd, cwd=cwd, env=env, stdout=subprocess.PIPE, stderr=subprocess.STDOUT, text=True, timeout=timeout, shell=isinstance(cmd, str))
    return p.returncode, p.stdout


def hdir(name):
    return os.path.join(ROOT, "harmless", name)


def props_for(patch):
    files = [l[6:].strip() for l in open(patch) if l.startswith("+++ b/")]
    out = []
    for f in files:
        d = os.path.dirname(f) + "/" if "/" in f else ""
        key = d if d in BY_DIR else ("cmd/minify/" if f.startswith("cmd/minify/") else "")
        for p in BY_DIR.get(key, BY_DIR[""]):
            if p not in out:
                out.append(p)
    return sorted(out)


def cmd_import(hid, r):
    src, dst = f"/tmp/mut/{hid}-out/{r}", hdir(f"{hid}-{r}")
    if os.path.exists(dst):
        shutil.rmtree(dst)
    shutil.copytree(src, dst)
    print("imported", dst)


def cmd_run(name, props):
    d = hdir(name)
    mp = os.path.join(d, "meta.json")
    meta = json.load(open(mp)) if os.path.exists(mp) else {}
    patch = os.path.join(d, "patch.diff")
    props = props or props_for(patch)
    wt = tempfile.mkdtemp(prefix="harmless-")
    os.rmdir(wt)
    rc, out = sh(["git", "-C", "/repo", "worktree", "add", "-q", "--detach", wt, "HEAD"])
    res = meta.setdefault("checks", {})
    try:
        rc, out = sh(["git", "apply", patch], cwd=wt)
        meta["applies"] = rc == 0
        if rc != 0:
            print(name, "patch does not apply:", out[:300])
            return 2
        rc, out = sh("go build ./... && go build -tags verif ./... && go vet ./... >/dev/null 2>&1; go test -vet=off -count=1 ./...", cwd=wt)
        meta["suite_passes_with_patch"] = rc == 0 and "FAIL" not in out
        if not meta["suite_passes_with_patch"]:
            meta["suite_tail"] = out[-600:]
            print(name, "suite fails with the patch — not a harmless rewrite:", out[-300:])
            return 2
        for p in props:
            rc, out = sh([os.path.join(ROOT, "check"), p], cwd=ROOT, env=dict(ENV, VERIF_REPO=wt))
            lines = out.strip().splitlines()
            viol = [l for l in lines if l.startswith("VIOLATION")]
            detail = [l for l in lines if l.startswith("  fail:") or l.startswith("  diff:") or l.startswith("BROKEN")][:3]
            if rc == 0:
                oc = "silent"
            elif rc == 1:
                oc = "ALARM (failing input)" if any("no-failing-input-found" not in v for v in viol) else "alarm (no-failing-input-found)"
            else:
                oc = "ERROR"
            res[p] = {"outcome": oc, "summary": lines[-1][:200] if lines else "", "detail": [x[:400] for x in detail]}
            print(f"{name} vs {p}: {oc}")
            for x in detail[:2]:
                print("    ", x[:260])
    finally:
        sh(["git", "-C", "/repo", "worktree", "remove", "--force", wt])
        sh("git checkout -- evidence lean/Verif/Gen", cwd=ROOT)
        for a in glob.glob(os.path.join(ROOT, "out", "alt-*")):
            shutil.rmtree(a, ignore_errors=True)
        json.dump(meta, open(mp, "w"), indent=1)
    return 0


def cmd_table():
    rows = []
    for d in sorted(glob.glob(os.path.join(ROOT, "harmless", "*"))):
        mp = os.path.join(d, "meta.json")
        if not os.path.exists(mp):
            continue
        m = json.load(open(mp))
        ch = m.get("checks", {})
        sil = [p for p, c in ch.items() if c["outcome"] == "silent"]
        al = [f"{p}: {c['outcome']}" for p, c in sorted(ch.items()) if c["outcome"] != "silent"]
        hist = m.get("history", "")
        rows.append(f"| `{os.path.basename(d)}` | {(m.get('kind') or '')[:60]} | {(m.get('what') or '').replace('|', '/')[:220]} | {', '.join(m.get('files_touched') or [])[:80]} | {'yes' if m.get('io_pattern_changed') else 'no'} | {len(sil)} silent" + (f"; **{'; '.join(al)}**" if al else "") + f" {hist} |")
    table = "| rewrite | kind | what | files | I/O pattern changed | checks run → outcome |\n|---|---|---|---|---|---|\n" + "\n".join(rows)
    p = os.path.join(ROOT, "DESIGN.md")
    s = open(p).read()
    a, b = "<!-- HARMLESS-TABLE-BEGIN -->", "<!-- HARMLESS-TABLE-END -->"
    if a not in s:
        s += ("\n\n--------------------------------------------------------------------------------------------------\n\n## 12. Behaviour-preserving rewrites and the checks (false-alarm campaign)\n\n"
              "Independent sub-agents, given only the texts of the 20 properties and a scratch worktree of /repo, each wrote five realistic rewrites of one area of the code "
              "that change nothing the properties speak about (renames, extracted/inlined helpers, hoisted literals, reordered declarations, inverted conditions, loops replaced by library "
              "calls, re-laid-out tables, …), compiling with and without the `verif` tag and passing the unedited suite. `tools/harmless.py run` applies each in a scratch worktree and runs "
              "the checks of every property anchored in the touched package against it (`VERIF_REPO`): every check must stay silent. An alarm here is a defect of the machinery "
              "(translator or model too close to the spelling of the code), is recorded below with what was changed about it, and the rewrite is re-run. Rewrites are kept under `/verif/harmless/`.\n\n" + a + "\n" + b + "\n")
    s = s[:s.index(a) + len(a)] + "\n" + table + "\n" + s[s.index(b):]
    open(p, "w").write(s)
    print(len(rows), "rows")


if __name__ == "__main__":
    a = sys.argv[1:]
    if not a:
        print(__doc__); sys.exit(2)
    if a[0] == "import":
        cmd_import(a[1], a[2])
    elif a[0] == "run":
        sys.exit(cmd_run(a[1], a[2:]))
    elif a[0] == "table":
        cmd_table()

#!/usr/bin/env python3
"""Regenerates the table of DESIGN.md §10 from seeded/*/meta.json (between the markers)."""
import json, glob, os, re
ROOT = os.path.dirname(os.path.dirname(os.path.abspath(__file__)))
rows = []
for d in sorted(glob.glob(os.path.join(ROOT, "seeded", "*"))):
    mp = os.path.join(d, "meta.json")
    if not os.path.exists(mp):
        continue
    m = json.load(open(mp))
    name = os.path.basename(d)
    what = (m.get("what_breaks") or "").replace("|", "/").replace("\n", " ")
    needs = (m.get("needs_to_manifest") or "").replace("|", "/").replace("\n", " ")
    ver = m.get("verified", {})
    conf = "yes" if ver.get("confirmed") else "NO"
    checks = m.get("checks", {})
    outcome = "; ".join(f"{p}: {c['outcome']}" for p, c in sorted(checks.items())) or "(not run yet)"
    hist = m.get("history", "")
    rows.append(f"| `{name}` | {what[:260]} | {needs[:200]} | {conf} | {outcome} {hist} |")
table = "| seeded change | what it breaks | needs to manifest | confirmed (suite green, demo fails/passes) | checks run against it → outcome |\n|---|---|---|---|---|\n" + "\n".join(rows)
p = os.path.join(ROOT, "DESIGN.md")
s = open(p).read()
a, b = "<!-- SEEDED-TABLE-BEGIN -->", "<!-- SEEDED-TABLE-END -->"
if a not in s:
    s += f"\n\n--------------------------------------------------------------------------------------------------\n\n## 10. Seeded changes and which checks catch them\n\nIndependent sub-agents, given only the text of one property and a scratch worktree of /repo (nothing from /verif), each wrote two\nchanges that break the property while compiling and passing the unedited test-suite, with a demonstration. Each was confirmed in a scratch\nworktree (`tools/seeded.py verify`: patch applies, suite green with it, demo passes without and fails with it) and is kept under\n`/verif/seeded/<property>-m<i>/` (patch.diff, demo, meta.json). `tools/seeded.py run` applies the patch to /repo, runs the checks and undoes it.\n`caught (failing input)` = VIOLATION with a concrete replay; `caught (no-failing-input-found)` = only a proof obligation / the correspondence broke.\nWhere a check first missed a change, the strengthening is described below the table and the change was re-run.\n\n{a}\n{b}\n"
s = s[:s.index(a) + len(a)] + "\n" + table + "\n" + s[s.index(b):]
open(p, "w").write(s)
print(len(rows), "rows")

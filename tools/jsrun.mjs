#!/usr/bin/env node
// jsrun.mjs — independent execution oracle for property C01 (JS minification preserves behaviour).
//
//   node tools/jsrun.mjs < requests.jsonl > replies.jsonl
//   node tools/jsrun.mjs --one '<a>' '<b>' [seed] [--gets]
//
// request : {"id":1,"a":"<js>","b":"<js>","seed":7,"mode":"script","traceGets":false}
// reply   : {"id":1,"same":true|false,"skip":"","why":"","oa":"…","ob":"…"}
//
// Each program runs in a fresh vm context whose free identifiers (f g h k, a…z, o1 o2) are bound to a
// deterministic recording host world derived from `seed`.  The observation of a run is
//   trace (calls into host functions with described arguments), completion (normal / thrown value),
//   globals (own enumerable properties of the global object), lex (top-level lexical bindings) and
//   objs (properties stored on host objects).
// Two programs are `same` when all of these are equal; the completion VALUE of a normal completion is ignored.

import vm from 'node:vm';
import readline from 'node:readline';

const FN_NAMES = ['f', 'g', 'h', 'k'];
const VAR_NAMES = 'a b c d e p q r s t u v w x y z'.split(' ');
const OBJ_NAMES = ['o1', 'o2'];
const POOL_NAMES = [...FN_NAMES, ...VAR_NAMES, ...OBJ_NAMES];
const TIMEOUT_MS = 200;
const TRACE_CAP = 3000;
const MAX_DEPTH = 4;

// ---------------------------------------------------------------- deterministic hashing / PRNG

function mix(x) { // one mulberry32 step used as an integer hash
  x = (x + 0x6D2B79F5) | 0;
  let t = Math.imul(x ^ (x >>> 15), 1 | x);
  t = (t + Math.imul(t ^ (t >>> 7), 61 | t)) ^ t;
  return (t ^ (t >>> 14)) >>> 0;
}
function hstr(s) { // FNV-1a
  let h = 2166136261;
  for (let i = 0; i < s.length; i++) { h ^= s.charCodeAt(i); h = Math.imul(h, 16777619); }
  return h >>> 0;
}
function hkey(seed, kind, key) { return mix(mix(seed | 0) ^ hstr(kind + '\u0000' + key)); }

// ---------------------------------------------------------------- describe

const objToString = Object.prototype.toString;
const fnToString = Function.prototype.toString;
const getDesc = Object.getOwnPropertyDescriptor;
const RESERVED = new Set(('break case catch class const continue debugger default delete do else enum export extends false finally for ' +
  'function if import in instanceof new null return super switch this throw true try typeof var void while with yield let static ' +
  'implements interface package private protected public await async of get set arguments eval undefined NaN Infinity').split(' '));

function nul() { return Object.create(null); }
function tagged(k, v) { const o = nul(); o[k] = v; return o; }

function isNative(fn) {
  try { return fnToString.call(fn).includes('[native code]'); } catch { return false; }
}
function safeName(fn) {
  try { const d = getDesc(fn, 'name'); return d && typeof d.value === 'string' ? d.value : ''; } catch { return ''; }
}
// name of the nearest built-in constructor on the prototype chain + whether the direct constructor is user code
function classOf(v) {
  let user = false, p;
  try { p = Object.getPrototypeOf(v); } catch { return { name: '?', user: false }; }
  for (let i = 0; p && i < 12; i++) {
    let d;
    try { d = getDesc(p, 'constructor'); } catch { d = undefined; }
    if (d && typeof d.value === 'function') {
      const nm = safeName(d.value);
      if (isNative(d.value) && !nm.startsWith('bound ')) return { name: nm, user };
      user = true;
    }
    try { p = Object.getPrototypeOf(p); } catch { break; }
  }
  return { name: p === null || p === undefined ? 'null' : '?', user };
}

class Describer {
  constructor(world) { this.w = world; }
  str(s) {
    if (s.length <= 2000) return s;
    return tagged('$longstr', [s.length, hstr(s), s.slice(0, 60)]);
  }
  props(v, depth, stack, skip) {
    let keys;
    try { keys = Object.keys(v); } catch { return undefined; }
    let out, n = 0;
    for (const key of keys) {
      if (skip && skip(key)) continue;
      if (!out) out = nul();
      if (++n > 40) { out['$more'] = keys.length; break; }
      let d;
      try { d = getDesc(v, key); } catch { d = undefined; }
      if (!d) continue;
      if ('value' in d) out[key] = this.d(d.value, depth + 1, stack);
      else out[key] = tagged('$accessor', (d.get ? 'g' : '') + (d.set ? 's' : ''));
    }
    return out;
  }
  d(v, depth = 0, stack = []) {
    switch (typeof v) {
      case 'undefined': return tagged('$', 'undefined');
      case 'boolean': return v;
      case 'string': return this.str(v);
      case 'number':
        if (v !== v) return tagged('$', 'NaN');
        if (v === 0 && 1 / v < 0) return tagged('$', '-0');
        if (v === Infinity) return tagged('$', 'Infinity');
        if (v === -Infinity) return tagged('$', '-Infinity');
        return v;
      case 'bigint': return tagged('$big', String(v));
      case 'symbol': return tagged('$sym', String(v.description));
    }
    if (v === null) return null;
    const w = this.w;
    const lab = w.labels.get(v);
    if (lab !== undefined) return lab; // pre-built {$obj|$fn|$error: …}
    if (v === w.global) return tagged('$global', 1);
    if (typeof v === 'function') {
      let r;
      if (isNative(v) && !safeName(v).startsWith('bound ')) r = tagged('$native', safeName(v));
      else r = tagged('$function', 1);
      if (depth < MAX_DEPTH && !stack.includes(v)) {
        stack.push(v);
        const p = this.props(v, depth, stack, (key) => key === 'name' || key === 'length' || key === 'prototype');
        stack.pop();
        if (p) r.props = p;
      }
      return r;
    }
    if (stack.includes(v)) return tagged('$cycle', 1);
    if (depth >= MAX_DEPTH) return tagged('$deep', 1);
    stack.push(v);
    try { return this.obj(v, depth, stack); } catch (e) { return tagged('$undescribable', String(e && e.name)); } finally { stack.pop(); }
  }
  obj(v, depth, stack) {
    let tag;
    try { tag = objToString.call(v); } catch { tag = '[object ?]'; }
    if (Array.isArray(v) || tag === '[object Arguments]') {
      const dl = getDesc(v, 'length');
      const len = dl && typeof dl.value === 'number' ? dl.value : 0;
      const arr = [];
      for (let i = 0; i < len && i < 60; i++) {
        const d = getDesc(v, String(i));
        if (!d) arr.push(tagged('$hole', 1));
        else if ('value' in d) arr.push(this.d(d.value, depth + 1, stack));
        else arr.push(tagged('$accessor', 1));
      }
      if (len > 60) arr.push(tagged('$more', len));
      const r = tagged(tag === '[object Arguments]' ? '$args' : '$arr', arr);
      const p = this.props(v, depth, stack, (key) => /^(0|[1-9]\d*)$/.test(key));
      if (p) r.props = p;
      const raw = getDesc(v, 'raw'); // template objects
      if (raw && Array.isArray(raw.value)) r.raw = this.d(raw.value, depth + 1, stack);
      return r;
    }
    switch (tag) {
      case '[object Error]': {
        return tagged('$error', classOf(v).name);
      }
      case '[object RegExp]': {
        let src = '?', li;
        try { src = '/' + getSource(v); } catch { src = '?'; }
        const dl = getDesc(v, 'lastIndex');
        li = dl ? dl.value : undefined;
        const r = tagged('$re', src);
        if (li !== 0) r.lastIndex = this.d(li, depth + 1, stack);
        return r;
      }
      case '[object Date]': {
        let t; try { t = Date.prototype.getTime.call(v); } catch { t = '?'; }
        return tagged('$date', this.d(t, depth + 1, stack));
      }
      case '[object Map]': {
        const items = [];
        try { Map.prototype.forEach.call(v, (val, key) => { if (items.length < 40) items.push([this.d(key, depth + 1, stack), this.d(val, depth + 1, stack)]); }); } catch { /* not a map */ }
        return tagged('$map', items);
      }
      case '[object Set]': {
        const items = [];
        try { Set.prototype.forEach.call(v, (val) => { if (items.length < 40) items.push(this.d(val, depth + 1, stack)); }); } catch { /* not a set */ }
        return tagged('$set', items);
      }
      case '[object Promise]': return tagged('$promise', 1);
      case '[object Generator]': return tagged('$generator', 1);
      case '[object AsyncGenerator]': return tagged('$asyncgenerator', 1);
      case '[object WeakMap]': case '[object WeakSet]': case '[object WeakRef]':
        return tagged('$tag', tag.slice(8, -1));
      case '[object Number]': case '[object String]': case '[object Boolean]': case '[object BigInt]': case '[object Symbol]': {
        let pv;
        try {
          pv = tag === '[object Number]' ? Number.prototype.valueOf.call(v) : tag === '[object String]' ? String.prototype.valueOf.call(v)
            : tag === '[object Boolean]' ? Boolean.prototype.valueOf.call(v) : tag === '[object BigInt]' ? BigInt.prototype.valueOf.call(v)
              : Symbol.prototype.valueOf.call(v);
        } catch { return tagged('$tag', tag.slice(8, -1)); }
        return tagged('$boxed', this.d(pv, depth + 1, stack));
      }
    }
    const c = classOf(v);
    const p = this.props(v, depth, stack) || nul();
    if (tag === '[object Object]' && c.name === 'Object' && !c.user) return tagged('$o', p);
    if (tag === '[object Object]' && c.name === 'null' && !c.user) return tagged('$o0', p);
    // class instance / exotic built-in: nearest built-in constructor name (+"!" when the direct class is user code)
    const r = tagged('$inst', c.name + (c.user ? '!' : ''));
    if (tag !== '[object Object]') r.tag = tag.slice(8, -1);
    r.props = p;
    return r;
  }
}
function getSource(re) {
  const s = getDesc(RegExp.prototype, 'source').get.call(re);
  const f = getDesc(RegExp.prototype, 'flags').get.call(re);
  return s + '/' + f;
}

// ---------------------------------------------------------------- host world

// Source-text reflection is outside the property: the minifier is entitled to change the text of a function or class,
// so inside the sandbox Function.prototype.toString of non-native functions (`''+f`, String(f), \`\${this}\` in a static
// initialiser, f.toString()) yields one canonical text.
const FACTORY_SRC = `"use strict";
(function () {
  const nativeToString = Function.prototype.toString;
  const isNat = (f) => { try { return /\\{\\s*\\[native code\\]\\s*\\}\$/.test(nativeToString.call(f)); } catch (e) { return false; } };
  Object.defineProperty(Function.prototype, 'toString', {
    value: function toString() {
      if (typeof this === 'function' && !isNat(this)) return 'function () { [code] }';
      return nativeToString.call(this);
    }, writable: true, configurable: true,
  });
})();
({
  mkFn(impl, label) {
    const w = function (...args) { return impl(label, this, args, new.target !== undefined); };
    Object.defineProperty(w, 'name', { value: label, configurable: true });
    return w;
  },
  mkObj(handler) { return new Proxy({}, handler); },
  mkConst(v) { return function () { return v; }; },
  mkIter(vals) { return function () { return vals[Symbol.iterator](); }; },
  mkArr(...a) { return a; },
  mkErr(msg) { return new Error(msg); },
  global: globalThis,
})`;
let factoryScript = null;

const PRIMS = [undefined, null, true, false, 0, 1, 2, -1, NaN, '', 's', '0'];

class World {
  constructor(seed, opts) {
    this.seed = seed | 0;
    this.traceGets = !!(opts && opts.traceGets);
    this.trace = [];
    this.overflow = false;
    this.calls = 0;
    this.labels = new WeakMap(); // host value -> pre-built description
    this.objs = new Map();       // label -> {proxy,target,deleted}
    this.fns = new Map();        // label -> function
    this.desc = new Describer(this);
    this.sandbox = {};
    this.ctx = vm.createContext(this.sandbox, { microtaskMode: 'afterEvaluate' });
    if (!factoryScript) factoryScript = new vm.Script(FACTORY_SRC, { filename: 'jsrun-factory.js' });
    this.F = factoryScript.runInContext(this.ctx);
    this.global = this.F.global;
    this.impl = (label, thisv, args, isNew) => this.hostCall(label, thisv, args, isNew);
    for (const n of FN_NAMES) this.sandbox[n] = this.hostFn(n);
    for (const n of OBJ_NAMES) this.sandbox[n] = this.hostObj(n);
    for (const n of VAR_NAMES) this.sandbox[n] = this.poolValue(hkey(this.seed, 'var', n), 'v_' + n, 0);
  }
  record(ev) {
    if (this.trace.length >= TRACE_CAP) { this.overflow = true; return; }
    this.trace.push(ev);
  }
  hostFn(label) {
    let fn = this.fns.get(label);
    if (fn) return fn;
    fn = this.F.mkFn(this.impl, label);
    this.fns.set(label, fn);
    this.labels.set(fn, tagged('$fn', label));
    return fn;
  }
  hostObj(label) {
    const e = this.objs.get(label);
    if (e) return e.proxy;
    const ent = { proxy: null, target: null, deleted: new Set(), label };
    const proxy = this.F.mkObj(this.handler(ent));
    ent.proxy = proxy;
    this.objs.set(label, ent);
    this.labels.set(proxy, tagged('$obj', label));
    return proxy;
  }
  // value drawn from the pool by hash r; `label` names a fresh host object / function if one is drawn
  poolValue(r, label, depth) {
    const k = r % 16;
    const r2 = mix(r);
    if (k < 12) return PRIMS[k];
    if (depth >= 3) return PRIMS[r2 % 12];
    if (k === 12) return this.hostObj(label);
    if (k === 13) return this.hostObj(OBJ_NAMES[r2 % 2]);
    if (k === 14) return this.hostFn(FN_NAMES[r2 % 4]);
    return this.hostFn(label);
  }
  prim(r) {
    const k = r % 8;
    return [0, 1, 2, -1, 's', '0', 7, 'o'][k];
  }
  hostCall(label, thisv, args, isNew) {
    const i = this.calls++;
    const ev = nul();
    ev[isNew ? 'new' : 'fn'] = label;
    if (!isNew && thisv !== undefined) ev.this = this.desc.d(thisv, 1);
    ev.args = args.map((a) => this.desc.d(a, 1));
    this.record(ev);
    const r = hkey(this.seed, 'call', String(i));
    if (r % 12 === 0) {
      const r2 = mix(r);
      if (r2 % 2 === 0) {
        const e = this.F.mkErr('host' + i);
        const d = tagged('$error', 'Error'); d.host = i;
        this.labels.set(e, d);
        throw e;
      }
      throw this.poolValue(mix(r2), 'x' + i, 1);
    }
    const v = this.poolValue(mix(r ^ 0x5bd1e995), 'r' + i, 1);
    if (isNew && (v === null || (typeof v !== 'object' && typeof v !== 'function'))) return this.hostObj('n' + i);
    return v;
  }
  handler(ent) {
    const w = this, label = ent.label;
    const depth = label.split('.').length;
    const derived = (prop0) => {
      // a property key that is the source text of a function / class (x[function(){}], x[class{}]) is source-text
      // reflection: the minifier is entitled to change it, so all such keys are one key
      const prop = /^(?:async\s|function\b|class\b|\(|[\w$]+\s*=>)/.test(prop0) && /[{(=]/.test(prop0) ? '$code' : prop0;
      const r = hkey(w.seed, 'prop', label + '\u0001' + prop);
      if (prop === 'length') return r % 4;
      const k = r % 20;
      if (depth >= 4 || k < 10) return PRIMS[mix(r) % 12];
      if (k < 17) return w.hostFn(label + '.' + prop);
      return w.hostObj(label + '.' + prop);
    };
    const virtualKeys = () => {
      const r = hkey(w.seed, 'keys', label);
      return ['p', 'q', 'm'].slice(0, r % 3).filter((key) => !ent.deleted.has(key));
    };
    const own = (t, prop) => Object.prototype.hasOwnProperty.call(t, prop);
    const rec = (kind, prop, extra) => {
      if (!w.traceGets || typeof prop !== 'string') return;
      const ev = nul(); ev[kind] = label + '.' + prop;
      if (extra !== undefined) ev.value = extra;
      w.record(ev);
    };
    return {
      get(t, prop, receiver) {
        ent.target = t;
        if (typeof prop === 'symbol') {
          if (own(t, prop)) return Reflect.get(t, prop, receiver);
          if (prop === Symbol.toPrimitive) return w.F.mkConst(w.prim(hkey(w.seed, 'prim', label)));
          if (prop === Symbol.iterator) {
            const r = hkey(w.seed, 'iter', label);
            if (r % 2 === 0) return undefined;
            const n = (r >>> 3) % 4, vals = [];
            for (let i = 0; i < n; i++) vals.push(PRIMS[hkey(w.seed, 'iterval', label + i) % 12]);
            return w.F.mkIter(w.F.mkArr(...vals));
          }
          return undefined;
        }
        if (own(t, prop)) { rec('get', prop); return Reflect.get(t, prop, receiver); }
        if (prop === 'valueOf' || prop === 'toString' || prop === 'toJSON') return w.F.mkConst(w.prim(hkey(w.seed, 'prim', label)));
        if (prop === 'then' || prop === '__proto__' || prop === 'constructor') return undefined;
        rec('get', prop);
        if (ent.deleted.has(prop)) return undefined;
        return derived(prop);
      },
      set(t, prop, value, receiver) {
        ent.target = t;
        if (typeof prop === 'string') { ent.deleted.delete(prop); rec('set', prop, w.desc.d(value, 1)); }
        if (receiver === ent.proxy) { t[prop] = value; return true; }
        return Reflect.set(t, prop, value, receiver);
      },
      has(t, prop) {
        ent.target = t;
        if (typeof prop === 'symbol') return Reflect.has(t, prop);
        rec('has', prop);
        if (own(t, prop)) return true;
        if (ent.deleted.has(prop)) return false;
        if (virtualKeys().includes(prop)) return true;
        return hkey(w.seed, 'has', label + '\u0001' + prop) % 2 === 0;
      },
      deleteProperty(t, prop) {
        ent.target = t;
        if (typeof prop === 'string') { rec('delete', prop); ent.deleted.add(prop); }
        return Reflect.deleteProperty(t, prop);
      },
      defineProperty(t, prop, desc) {
        ent.target = t;
        if (typeof prop === 'string') ent.deleted.delete(prop);
        return Reflect.defineProperty(t, prop, desc);
      },
      ownKeys(t) {
        ent.target = t;
        const keys = Reflect.ownKeys(t);
        for (const key of virtualKeys()) if (!keys.includes(key)) keys.push(key);
        return keys;
      },
      getOwnPropertyDescriptor(t, prop) {
        ent.target = t;
        const d = Reflect.getOwnPropertyDescriptor(t, prop);
        if (d) return d;
        if (typeof prop === 'string' && virtualKeys().includes(prop)) {
          return { value: derived(prop), writable: true, enumerable: true, configurable: true };
        }
        return undefined;
      },
    };
  }
  // state stored on host objects (own properties of the proxy targets + deleted names)
  describeObjs() {
    const out = nul();
    const labels = [...this.objs.keys()].sort();
    for (const l of labels) {
      const ent = this.objs.get(l);
      if (!ent.target) continue;
      const p = this.desc.props(ent.target, 0, []);
      const del = [...ent.deleted].sort();
      if (!p && del.length === 0) continue;
      const o = nul();
      if (p) o.props = p;
      if (del.length) o.deleted = del;
      out[l] = o;
    }
    return out;
  }
}

// ---------------------------------------------------------------- observe

function declaredNames(src) {
  const names = new Set();
  const re = /(?:let|const|class|var|function\s*\*?|async\s+function\s*\*?)\s+([A-Za-z_$][\w$]*)/g;
  let m;
  while ((m = re.exec(src)) !== null) if (!RESERVED.has(m[1])) names.add(m[1]);
  return names;
}

const TDZ = { tdz: true };
function lexScriptSource(names) {
  return '(function($$T){return [' + names.map((n) => `(()=>{try{return typeof ${n}!=='undefined'?${n}:undefined}catch(e){return $$T}})()`).join(',') + ']})';
}

// returns {syntax:"msg"} | {timeout:true} | observation
function observe(src, seed, opts, names, timeoutMs = TIMEOUT_MS) {
  let script;
  try { script = new vm.Script(src, { filename: 'prog.js' }); } catch (e) {
    return { syntax: String(e && e.message).slice(0, 200) };
  }
  const w = new World(seed, opts);
  let completion;
  try {
    script.runInContext(w.ctx, { timeout: timeoutMs, displayErrors: false });
    completion = { type: 'normal' };
  } catch (e) {
    if (e && e.code === 'ERR_SCRIPT_EXECUTION_TIMEOUT') return { timeout: true };
    completion = { type: 'throw', value: w.desc.d(e) };
  }
  const globals = nul();
  for (const key of Object.keys(w.sandbox).sort()) {
    const d = getDesc(w.sandbox, key);
    globals[key] = d && 'value' in d ? w.desc.d(d.value) : tagged('$accessor', 1);
  }
  const lex = nul();
  const lexNames = names.filter((n) => /^[A-Za-z_$][\w$]*$/.test(n) && !RESERVED.has(n));
  let vals = null;
  try {
    vals = new vm.Script(lexScriptSource(lexNames)).runInContext(w.ctx, { timeout: 25 * TIMEOUT_MS })(TDZ);
  } catch { vals = null; }
  for (let i = 0; i < lexNames.length; i++) {
    let v;
    if (vals) v = vals[i];
    else {
      try { v = new vm.Script(lexScriptSource([lexNames[i]])).runInContext(w.ctx, { timeout: 25 * TIMEOUT_MS })(TDZ)[0]; } catch { continue; }
    }
    lex[lexNames[i]] = v === TDZ ? tagged('$tdz', 1) : w.desc.d(v);
  }
  const obs = { trace: w.trace, completion, globals, lex, objs: w.describeObjs() };
  if (w.overflow) obs.overflow = true;
  return obs;
}

function firstDiff(oa, ob) {
  const js = JSON.stringify;
  const ta = oa.trace, tb = ob.trace;
  const n = Math.min(ta.length, tb.length);
  for (let i = 0; i < n; i++) {
    if (js(ta[i]) !== js(tb[i])) return { at: i, why: `trace[${i}]: ${js(ta[i])} vs ${js(tb[i])}` };
  }
  if (ta.length !== tb.length) {
    const longer = ta.length > tb.length ? ta : tb;
    return { at: n, why: `trace length ${ta.length} vs ${tb.length}; extra ${ta.length > tb.length ? 'in input' : 'in output'}: ${js(longer[n])}` };
  }
  if (js(oa.completion) !== js(ob.completion)) return { at: ta.length, why: `completion: ${js(oa.completion)} vs ${js(ob.completion)}` };
  for (const part of ['globals', 'lex', 'objs']) {
    const ka = Object.keys(oa[part]), kb = Object.keys(ob[part]);
    for (const key of new Set([...ka, ...kb])) {
      const va = js(oa[part][key]), vb = js(ob[part][key]);
      if (va !== vb) return { at: ta.length, part, why: `${part}.${key}: ${va === undefined ? '(absent)' : va} vs ${vb === undefined ? '(absent)' : vb}` };
    }
    if (js(ka) !== js(kb)) return { at: ta.length, part, why: `${part}: key order ${js(ka)} vs ${js(kb)}` };
  }
  return null;
}

function clip(s, n) { return s.length > n ? s.slice(0, n) + '…' : s; }

// short rendering of an observation around trace index `at`, restricted to differing keys of the other observation
function render(o, other, at) {
  const js = JSON.stringify;
  const from = Math.max(0, at - 3);
  const r = nul();
  if (from > 0) r.traceFrom = from;
  r.trace = o.trace.slice(from, from + 12);
  if (o.trace.length > from + 12) r.traceLen = o.trace.length;
  r.completion = o.completion;
  for (const part of ['globals', 'lex', 'objs']) {
    const d = nul(); let any = false;
    for (const key of new Set([...Object.keys(o[part]), ...Object.keys(other[part])])) {
      if (js(o[part][key]) !== js(other[part][key])) { d[key] = o[part][key] === undefined ? '(absent)' : o[part][key]; any = true; }
    }
    if (any) r[part] = d;
  }
  return clip(js(r), 600);
}

function compare(req) {
  const id = req.id;
  const seed = Number.isFinite(req.seed) ? req.seed : 0;
  const opts = { traceGets: !!req.traceGets };
  if (typeof req.a !== 'string' || typeof req.b !== 'string') return { id, same: true, skip: 'internal: bad request', why: '' };
  const names = [...new Set([...POOL_NAMES, ...declaredNames(req.a)])];
  const oa = observe(req.a, seed, opts, names);
  if (oa.syntax !== undefined) return { id, same: true, skip: 'input syntax error', why: oa.syntax };
  if (oa.timeout) return { id, same: true, skip: 'timeout', why: '' };
  if (oa.overflow) return { id, same: true, skip: 'trace overflow', why: '' };
  let ob = observe(req.b, seed, opts, names);
  if (ob.timeout) ob = observe(req.b, seed, opts, names, 8 * TIMEOUT_MS); // a loaded machine must not look like a hang
  if (ob.syntax !== undefined) return { id, same: false, skip: '', why: 'output does not parse: ' + ob.syntax, oa: render(oa, oa, 0), ob: '' };
  if (ob.timeout) return { id, same: false, skip: '', why: 'output timed out', oa: render(oa, oa, 0), ob: '' };
  const d = firstDiff(oa, ob);
  if (!d) return { id, same: true, skip: '', why: '' };
  return { id, same: false, skip: '', why: clip(d.why, 400), oa: render(oa, ob, d.at), ob: render(ob, oa, d.at) };
}

function safeCompare(req) {
  try { return compare(req); } catch (e) {
    return { id: req && req.id, same: true, skip: 'internal: ' + clip(String(e && e.stack || e), 300), why: '' };
  }
}

// ---------------------------------------------------------------- drivers

process.on('unhandledRejection', () => { /* rejected promises of observed programs are not observations */ });
process.on('uncaughtException', (e) => { process.stderr.write('jsrun: uncaught ' + String(e && e.stack || e) + '\n'); });

function write(s) {
  return new Promise((resolve) => { if (process.stdout.write(s)) resolve(); else process.stdout.once('drain', resolve); });
}

async function batch() {
  const rl = readline.createInterface({ input: process.stdin, crlfDelay: Infinity, terminal: false });
  let buf = [], n = 0;
  for await (const line of rl) {
    if (line.trim() === '') continue;
    let req, rep;
    try { req = JSON.parse(line); } catch (e) { req = null; rep = { id: -1, same: true, skip: 'internal: bad json: ' + clip(String(e), 100), why: '' }; }
    if (req !== null) rep = safeCompare(req);
    let out;
    try { out = JSON.stringify(rep); } catch (e) { out = JSON.stringify({ id: req && req.id, same: true, skip: 'internal: unserialisable reply', why: '' }); }
    buf.push(out);
    if (++n % 64 === 0) {
      await write(buf.join('\n') + '\n'); buf = [];
      await new Promise((r) => setImmediate(r)); // let pending rejections / GC callbacks run
    }
  }
  if (buf.length) await write(buf.join('\n') + '\n');
}

function one(argv) {
  const gets = argv.includes('--gets');
  const rest = argv.filter((x) => x !== '--gets');
  const a = rest[0], b = rest[1] === undefined ? rest[0] : rest[1];
  const seed0 = rest[2] === undefined ? 0 : parseInt(rest[2], 10);
  let diff = 0;
  for (let seed = seed0; seed < seed0 + 8; seed++) {
    const names = [...new Set([...POOL_NAMES, ...declaredNames(a)])];
    const opts = { traceGets: gets };
    const oa = observe(a, seed, opts, names), ob = observe(b, seed, opts, names);
    const rep = safeCompare({ id: seed, a, b, seed, traceGets: gets });
    const verdict = rep.skip ? 'SKIP(' + rep.skip + ')' : rep.same ? 'same' : 'DIFFERENT';
    if (!rep.same) diff++;
    console.log(`--- seed ${seed}: ${verdict}${rep.why ? '  ' + rep.why : ''}`);
    const show = (o) => {
      if (o.syntax !== undefined) return 'syntax error: ' + o.syntax;
      if (o.timeout) return 'timeout';
      const g = nul();
      for (const key of Object.keys(o.globals)) if (!FN_NAMES.includes(key) && !OBJ_NAMES.includes(key)) g[key] = o.globals[key];
      return 'trace=' + JSON.stringify(o.trace) + '\n      completion=' + JSON.stringify(o.completion) + ' objs=' + JSON.stringify(o.objs) +
        '\n      globals=' + clip(JSON.stringify(g), 700);
    };
    console.log('  A: ' + show(oa));
    if (!rep.same || rep.skip) console.log('  B: ' + show(ob));
  }
  console.log(diff ? `VERDICT: differs for ${diff} of 8 seeds` : 'VERDICT: same for all 8 seeds');
}

const argv = process.argv.slice(2);
if (argv[0] === '--one') one(argv.slice(1));
else batch().catch((e) => { process.stderr.write('jsrun: fatal ' + String(e && e.stack || e) + '\n'); process.exitCode = 1; });

# Rewrites aimed at harness/cmd/extract/c14_exits.go (Gen/ExitPaths.lean; Props/C14 all_packages_ok, root_no_recover).

XML_EXIT = "\t\t\tif _, err := w.Write(nil); err != nil {\n\t\t\t\treturn err\n\t\t\t}\n\t\t\tif l.Err() == io.EOF {\n\t\t\t\treturn nil\n\t\t\t}\n\t\t\treturn l.Err()\n"


def err_renamed(rw):
    rw.sub("xml/xml.go", XML_EXIT, XML_EXIT.replace("err", "werr"))


def nil_first(rw):
    rw.sub("xml/xml.go", XML_EXIT, XML_EXIT.replace("err != nil", "nil != err").replace("l.Err() == io.EOF", "io.EOF == l.Err()"))


def probe_hoisted(rw):
    rw.sub("xml/xml.go", XML_EXIT, "\t\t\t_, err := w.Write(nil)\n\t\t\tif err != nil {\n\t\t\t\treturn err\n\t\t\t}\n\t\t\tif l.Err() == io.EOF {\n\t\t\t\treturn nil\n\t\t\t}\n\t\t\treturn l.Err()\n")


def eof_inverted(rw):
    # if l.Err() != io.EOF { return l.Err() }; return nil   (the json shape) instead of   if == EOF { return nil }; return l.Err()
    rw.sub("xml/xml.go", XML_EXIT, "\t\t\tif _, err := w.Write(nil); err != nil {\n\t\t\t\treturn err\n\t\t\t}\n\t\t\tif l.Err() != io.EOF {\n\t\t\t\treturn l.Err()\n\t\t\t}\n\t\t\treturn nil\n")


def eof_if_else(rw):
    rw.sub("xml/xml.go", XML_EXIT, "\t\t\tif _, err := w.Write(nil); err != nil {\n\t\t\t\treturn err\n\t\t\t}\n\t\t\tif l.Err() == io.EOF {\n\t\t\t\treturn nil\n\t\t\t} else {\n\t\t\t\treturn l.Err()\n\t\t\t}\n")


def lexerr_local(rw):
    rw.sub("xml/xml.go", XML_EXIT, "\t\t\tif _, err := w.Write(nil); err != nil {\n\t\t\t\treturn err\n\t\t\t}\n\t\t\tlexErr := l.Err()\n\t\t\tif lexErr == io.EOF {\n\t\t\t\treturn nil\n\t\t\t}\n\t\t\treturn lexErr\n")


def writer_renamed(rw):
    rw.rename_in_func("xml/xml.go", r"\(o \*Minifier\) Minify", "w", "dst")


def lexer_renamed(rw):
    rw.rename_in_func("xml/xml.go", r"\(o \*Minifier\) Minify", "l", "lexer")


def io_import_alias(rw):
    rw.sub("xml/xml.go", '\t"io"\n', '\tstdio "io"\n')
    rw.resub("xml/xml.go", r"\bio\.(Writer|Reader|EOF)\b", r"stdio.\1", count=0)


def switch_to_if(rw):
    # json: the `if gt == json.ErrorGrammar {…}` becomes a switch with one case
    rw.sub("json/json.go", "\t\tif gt == json.ErrorGrammar {\n\t\t\tif _, err := w.Write(nil); err != nil {\n\t\t\t\treturn err\n\t\t\t}\n\t\t\tif p.Err() != io.EOF {\n\t\t\t\treturn p.Err()\n\t\t\t}\n\t\t\treturn nil\n\t\t}\n",
           "\t\tswitch gt {\n\t\tcase json.ErrorGrammar:\n\t\t\tif _, err := w.Write(nil); err != nil {\n\t\t\t\treturn err\n\t\t\t}\n\t\t\tif p.Err() != io.EOF {\n\t\t\t\treturn p.Err()\n\t\t\t}\n\t\t\treturn nil\n\t\t}\n")


def exit_in_helper(rw):
    # the exit sequence moves into a helper method-less function, the Minify body returns its result
    rw.sub("xml/xml.go", XML_EXIT, "\t\t\treturn finish(w, l.Err())\n")
    rw.append("xml/xml.go", """
// finish reports a failed write first, then a lexer error other than io.EOF
func finish(w io.Writer, lexErr error) error {
	if _, err := w.Write(nil); err != nil {
		return err
	}
	if lexErr == io.EOF {
		return nil
	}
	return lexErr
}
""")


def suberr_wrapped(rw):
    rw.sub1("svg/svg.go", "\t\t\t\t\treturn minify.UpdateErrorPosition(err, z, t.Offset)\n", "\t\t\t\t\treturn located(err, z, t.Offset)\n")
    rw.append("svg/svg.go", "\nfunc located(err error, z *parse.Input, offset int) error {\n\treturn minify.UpdateErrorPosition(err, z, offset)\n}\n")


def suberr_hoisted(rw):
    rw.sub("svg/svg.go", "\t\t\t\tif err := m.MinifyMimetype(defaultStyleType, minifyBuffer, buffer.NewReader(parse.Copy(t.Data)), defaultStyleParams); err == nil {\n",
           "\t\t\t\terr := m.MinifyMimetype(defaultStyleType, minifyBuffer, buffer.NewReader(parse.Copy(t.Data)), defaultStyleParams)\n\t\t\t\tif err == nil {\n")


def js_parse_renamed(rw):
    rw.in_func("js/js.go", r"\(o \*Minifier\) Minify", "\tast, err := js.Parse(z, js.Options{", "\ttree, perr := js.Parse(z, js.Options{")
    rw.in_func("js/js.go", r"\(o \*Minifier\) Minify", "\tif err != nil {\n\t\treturn err\n\t}\n", "\tif perr != nil {\n\t\treturn perr\n\t}\n")
    rw.in_func("js/js.go", r"\(o \*Minifier\) Minify", r"(?<![\w.])ast\b", "tree", count=0, regex=True)


def js_return_probe_err(rw):
    # `_, err := w.Write(nil); return err` is the same as `if …; err != nil { return err }; return nil`
    rw.in_func("js/js.go", r"\(o \*Minifier\) Minify", "\tif _, err := w.Write(nil); err != nil {\n\t\treturn err\n\t}\n\treturn nil\n", "\t_, err = w.Write(nil)\n\treturn err\n")


def more_work(rw):
    rw.in_func("css/css.go", r"\(o \*Minifier\) Minify", "\tz := parse.NewInput(r)\n", "\t// unrelated bookkeeping\n\tstarted := true\n\t_ = started\n\n\tz := parse.NewInput(r)\n")


def more_dropped_writes(rw):
    rw.sub("xml/xml.go", "\t\tcase xml.DOCTYPEToken:\n\t\t\tw.Write(t.Data)\n", "\t\tcase xml.DOCTYPEToken:\n\t\t\tw.Write(t.Data[:0])\n\t\t\tw.Write(t.Data)\n")


def defer_moved(rw):
    rw.in_func("xml/xml.go", r"\(o \*Minifier\) Minify", "\tz := parse.NewInput(r)\n\tdefer z.Restore()\n", "\tz := parse.NewInput(r)\n")
    rw.in_func("xml/xml.go", r"\(o \*Minifier\) Minify", "\tl := xml.NewLexer(z)\n", "\tl := xml.NewLexer(z)\n\tdefer z.Restore()\n")


# ---- controls ----

def ctl_probe_removed(rw):
    rw.sub("xml/xml.go", XML_EXIT, "\t\t\tif l.Err() == io.EOF {\n\t\t\t\treturn nil\n\t\t\t}\n\t\t\treturn l.Err()\n")


def ctl_probe_unchecked(rw):
    rw.sub("xml/xml.go", XML_EXIT, "\t\t\tw.Write(nil)\n\t\t\tif l.Err() == io.EOF {\n\t\t\t\treturn nil\n\t\t\t}\n\t\t\treturn l.Err()\n")


def ctl_lexerr_dropped(rw):
    rw.sub("xml/xml.go", XML_EXIT, "\t\t\tif _, err := w.Write(nil); err != nil {\n\t\t\t\treturn err\n\t\t\t}\n\t\t\treturn nil\n")


def ctl_eof_check_flipped(rw):
    rw.sub("xml/xml.go", XML_EXIT, XML_EXIT.replace("l.Err() == io.EOF", "l.Err() != io.EOF"))


def ctl_early_return_nil(rw):
    rw.in_func("js/js.go", r"\(o \*Minifier\) Minify", "\tfor _, item := range ast.List {\n", "\tif len(ast.List) == 0 {\n\t\treturn nil\n\t}\n\tfor _, item := range ast.List {\n")


def ctl_parse_err_dropped(rw):
    rw.in_func("js/js.go", r"\(o \*Minifier\) Minify", "\tif err != nil {\n\t\treturn err\n\t}\n", "\t_ = err\n")


def ctl_recover(rw):
    rw.in_func("json/json.go", r"\(o \*Minifier\) Minify", "\tskipComma := true\n", "\tdefer func() { recover() }()\n\tskipComma := true\n")


def ctl_suberr_swallowed(rw):
    rw.sub1("svg/svg.go", "\t\t\t\t\treturn minify.UpdateErrorPosition(err, z, t.Offset)\n", "\t\t\t\t\treturn nil\n")


def ctl_helper_swallows(rw):
    rw.sub1("svg/svg.go", "\t\t\t\t\treturn minify.UpdateErrorPosition(err, z, t.Offset)\n", "\t\t\t\t\treturn located(err, z, t.Offset)\n")
    rw.append("svg/svg.go", "\nfunc located(err error, z *parse.Input, offset int) error {\n\tif offset == 0 {\n\t\treturn nil\n\t}\n\treturn minify.UpdateErrorPosition(err, z, offset)\n}\n")


def ctl_exit_helper_no_probe(rw):
    rw.sub("xml/xml.go", XML_EXIT, "\t\t\treturn finish(w, l.Err())\n")
    rw.append("xml/xml.go", """
func finish(w io.Writer, lexErr error) error {
	if lexErr == io.EOF {
		return nil
	}
	return lexErr
}
""")


def ctl_pi_loop_returns(rw):
    # the shape of seeded change C14-m2, re-based onto the current svg.go
    rw.sub("svg/svg.go", "\t\t\t\tt := *tb.Shift()\n\t\t\t\tif t.TokenType == xml.ErrorToken {\n\t\t\t\t\tbreak\n\t\t\t\t}\n",
           "\t\t\t\tt := *tb.Shift()\n\t\t\t\tif t.TokenType == xml.ErrorToken {\n\t\t\t\t\tif l.Err() == io.EOF {\n\t\t\t\t\t\treturn nil\n\t\t\t\t\t}\n\t\t\t\t\treturn l.Err()\n\t\t\t\t}\n")


T = ["c14_exits"]
REWRITES = [
    R("c14-err-renamed", T, "invariant", "rename-local", "xml exit block: err -> werr", err_renamed),
    R("c14-nil-first", T, "invariant", "equivalent-form", "xml exit block: `nil != err`, `io.EOF == l.Err()`", nil_first),
    R("c14-probe-hoisted", T, "invariant", "equivalent-form", "xml exit block: probe assignment hoisted out of the if", probe_hoisted),
    R("c14-eof-inverted", T, "invariant", "invert-if", "xml exit block in the json shape (`!= io.EOF` first)", eof_inverted, tests=["./xml/..."]),
    R("c14-eof-if-else", T, "invariant", "equivalent-form", "xml exit block: if EOF { return nil } else { return l.Err() }", eof_if_else),
    R("c14-lexerr-local", T, "invariant", "extract-local", "xml exit block: l.Err() read once into a local", lexerr_local, tests=["./xml/..."]),
    R("c14-writer-renamed", T + ["c13_facts"], "invariant", "rename-param", "xml Minify: w -> dst", writer_renamed),
    R("c14-lexer-renamed", T, "invariant", "rename-local", "xml Minify: l -> lexer", lexer_renamed),
    R("c14-io-import-alias", T + ["c12_skel"], "invariant", "import-alias", "xml: package io imported as stdio", io_import_alias),
    R("c14-switch-for-if", T, "invariant", "switch-if", "json: the error-grammar if becomes a one-case switch", switch_to_if, tests=["./json/..."]),
    R("c14-exit-in-helper", T, "invariant", "extract-helper", "xml: the exit sequence moves into a helper taking the writer and the lexer error", exit_in_helper, tests=["./xml/..."]),
    R("c14-suberr-wrapped", T, "invariant", "wrap-error-return", "svg: UpdateErrorPosition wrapped in a local helper", suberr_wrapped, tests=["./svg/..."]),
    R("c14-suberr-hoisted", T, "invariant", "equivalent-form", "svg: `err := sub(); if err != nil` instead of if-with-init", suberr_hoisted, tests=["./svg/..."]),
    R("c14-js-parse-renamed", T, "invariant", "rename-local", "js Minify: ast, err -> tree, perr", js_parse_renamed, tests=["./js/..."]),
    R("c14-js-return-probe-err", T, "invariant", "equivalent-form", "js Minify: `_, err = w.Write(nil); return err`", js_return_probe_err, tests=["./js/..."]),
    R("c14-more-work", T, "invariant", "add-unrelated-stmt", "css Minify: unrelated statements before the loop", more_work),
    R("c14-more-dropped-writes", T, "invariant", "add-unrelated-stmt", "xml Minify: an extra (empty) body write", more_dropped_writes, tests=["./xml/..."]),
    R("c14-defer-moved", T + ["c12_skel"], "invariant", "defer-placement", "xml Minify: defer z.Restore() one statement later", defer_moved, tests=["./xml/..."]),
    R("c14-ctl-probe-removed", T, "changes", "control", "xml: final probe write removed", ctl_probe_removed),
    R("c14-ctl-probe-unchecked", T, "changes", "control", "xml: probe result dropped", ctl_probe_unchecked),
    R("c14-ctl-lexerr-dropped", T, "changes", "control", "xml: lexer error no longer returned", ctl_lexerr_dropped),
    R("c14-ctl-eof-check-flipped", T, "changes", "control", "xml: returns nil when the lexer error is NOT EOF", ctl_eof_check_flipped),
    R("c14-ctl-early-return-nil", T, "changes", "control", "js: returns nil before the probe when there is nothing to print (seeded C14-m1 shape)", ctl_early_return_nil),
    R("c14-ctl-parse-err-dropped", T, "changes", "control", "js: parse error ignored", ctl_parse_err_dropped),
    R("c14-ctl-recover", T, "changes", "control", "json: deferred recover()", ctl_recover),
    R("c14-ctl-suberr-swallowed", T, "changes", "control", "svg: a sub-minifier error path returns nil", ctl_suberr_swallowed),
    R("c14-ctl-helper-swallows", T, "changes", "control", "svg: error wrapping helper that can return nil", ctl_helper_swallows),
    R("c14-ctl-pi-loop-returns", T, "changes", "control", "svg: returns from inside the processing-instruction loop without the probe (seeded C14-m2 re-based)", ctl_pi_loop_returns),
    R("c14-ctl-exit-helper-no-probe", T, "changes", "control", "xml: exit helper without the probe write", ctl_exit_helper_no_probe),
]

# Rewrites aimed at harness/cmd/extract/c16_flags.go (Gen/CliFlags.lean, Gen/JsVersionGates.lean; Props/C16 gates_ok, cli_flags_ok, options_covered).

def extra_minifystring_call(rw):
    # one more producer of the harmless kind: a string printed without template literals
    rw.append("js/util.go", "\nfunc quoteName(b []byte) []byte { return minifyString(b, false) }\n\nvar _ = quoteName\n")


def gate_hoisted(rw):
    rw.sub("js/js.go", "\t\t\t\t\tif len(expr.Args.List) == 2 && m.o.minVersion(2016) {\n",
           "\t\t\t\t\thasExp := m.o.minVersion(2016)\n\t\t\t\t\tif len(expr.Args.List) == 2 && hasExp {\n")


def gate_nested(rw):
    rw.sub("js/js.go", "\t\t\t\t\tif len(expr.Args.List) == 2 && m.o.minVersion(2016) {\n",
           "\t\t\t\t\tif len(expr.Args.List) == 2 {\n\t\t\t\t\tif m.o.minVersion(2016) {\n")
    t = rw.read("js/js.go")
    i = t.index("\t\t\t\t\tif m.o.minVersion(2016) {\n")
    # close the extra block after the matching `return` of the rewrite: the original block ends with `break` + `}`
    j = t.index("\t\t\t\t\t\tbreak\n\t\t\t\t\t}\n", i) + len("\t\t\t\t\t\tbreak\n\t\t\t\t\t}\n")
    t = t[:j] + "\t\t\t\t\t}\n" + t[j:]
    rw.write("js/js.go", t)
    rw.gofmt("js/js.go")


def gate_func_renamed(rw):
    rw.sub("js/js.go", "func (o *Minifier) minVersion(version int) bool {", "func (o *Minifier) atLeast(version int) bool {")
    rw.rename_sel("js", "minVersion", "atLeast")


def gate_receiver_renamed(rw):
    rw.rename_in_func("js/js.go", r"\(o \*Minifier\) minVersion", "o", "opts")
    rw.rename_in_func("js/js.go", r"\(o\w* \*Minifier\) minVersion", "version", "v")


def producer_func_renamed(rw):
    rw.rename("js", "toNullishExpr", "toNullishOrOptional")


def gate_cond_swapped(rw):
    rw.sub("js/js.go", "v.Uses == 1 && m.o.minVersion(2019) {", "m.o.minVersion(2019) && v.Uses == 1 {")


def gate_early_exit(rw):
    rw.sub("js/util.go", "\t\tif m.o.minVersion(2020) {\n\t\t\tif nullishExpr, ok := toNullishExpr(expr, optChain); ok {\n",
           "\t\tif nullishExpr, ok := m.nullish(expr, optChain); ok {\n\t\t\t{\n")
    rw.append("js/util.go", """
func (m *jsMinifier) nullish(expr *js.CondExpr, optChain bool) (js.IExpr, bool) {
	if !m.o.minVersion(2020) {
		return nil, false
	}
	return toNullishExpr(expr, optChain)
}
""")
    rw.gofmt("js/util.go")


def expbytes_inline(rw):
    rw.sub("js/js.go", "\t\t\t\t\t\tm.write(expBytes)\n", "\t\t\t\t\t\tm.write([]byte(\"**\"))\n")


def expbytes_renamed(rw):
    rw.rename("js", "expBytes", "powBytes")
    rw.rename("js", "optChainBytes", "optionalChainBytes")


def cli_var_renamed(rw):
    rw.rename("cmd/minify", "cssMinifier", "cssOpts", tests=False)
    rw.rename("cmd/minify", "jsMinifier", "jsOpts", tests=False)


def cli_flag_const(rw):
    rw.sub("cmd/minify/main.go", 'f.AddOpt(&xmlMinifier.KeepWhitespace, "", "xml-keep-whitespace",', 'f.AddOpt(&xmlMinifier.KeepWhitespace, "", flagXMLKeepWhitespace,')
    rw.append("cmd/minify/main.go", '\nconst flagXMLKeepWhitespace = "xml-keep-" + "whitespace"\n')


def cli_ptr_hoisted(rw):
    rw.sub("cmd/minify/main.go", '\tf.AddOpt(&svgMinifier.Precision, "", "svg-precision",', '\tsvgPrec := &svgMinifier.Precision\n\tf.AddOpt(svgPrec, "", "svg-precision",')


def cli_reordered(rw):
    t = rw.read("cmd/minify/main.go")
    import re
    ls = re.findall(r"^\tf\.AddOpt\(&\w+Minifier\.[^\n]*\n", t, re.M)
    assert len(ls) >= 10
    block = "".join(ls)
    assert block in t
    rw.write("cmd/minify/main.go", t.replace(block, "".join(reversed(ls))))


def option_struct_moved(rw):
    rw.move_decl("xml/xml.go", r"^type Minifier struct \{$", "xml/options.go")


def option_unexported_field(rw):
    rw.sub("xml/xml.go", "type Minifier struct {\n\tKeepWhitespace bool\n", "type Minifier struct {\n\tKeepWhitespace bool\n\tdepth          int // unrelated unexported bookkeeping field\n")


def optsite_receiver_renamed(rw):
    rw.rename_in_func("xml/xml.go", r"\(o \*Minifier\) Minify", "o", "opts")


def optsite_cond_respelled(rw):
    rw.sub("svg/svg.go", "\t\t\tif o.KeepComments {\n", "\t\t\tif o.KeepComments == true {\n")
    rw.sub("xml/xml.go", "next.TokenType == xml.TextToken && !o.KeepWhitespace && parse.IsAllWhitespace(next.Data)", "!o.KeepWhitespace && next.TokenType == xml.TextToken && parse.IsAllWhitespace(next.Data)")


def optsite_local_renamed(rw):
    rw.rename_in_func("html/html.go", r"\(o \*Minifier\) Minify", "isDocTag", "documentTag")


# ---- controls ----

def ctl_optsite_new_consumer(rw):
    rw.sub("json/json.go", "\t\tskipComma = gt == json.StartObjectGrammar || gt == json.StartArrayGrammar\n", "\t\tskipComma = gt == json.StartObjectGrammar || gt == json.StartArrayGrammar\n\t\tif o.KeepNumbers && gt == json.EndArrayGrammar {\n\t\t\tskipComma = false\n\t\t}\n")


def ctl_optsite_check_dropped(rw):
    rw.sub("xml/xml.go", "next.TokenType == xml.TextToken && !o.KeepWhitespace && parse.IsAllWhitespace(next.Data)", "next.TokenType == xml.TextToken && parse.IsAllWhitespace(next.Data)")


def ctl_gate_dropped(rw):
    rw.sub("js/js.go", "if len(expr.Args.List) == 2 && m.o.minVersion(2016) {", "if len(expr.Args.List) == 2 {")


def ctl_gate_version_lowered(rw):
    rw.sub("js/util.go", "\t\tif m.o.minVersion(2020) {\n", "\t\tif m.o.minVersion(2019) {\n")


def ctl_gate_collapsed(rw):
    # the seeded C16-m1 shape: the producer moves in front of the gate in the same condition
    rw.sub("js/util.go", "\t\tif m.o.minVersion(2020) {\n\t\t\tif nullishExpr, ok := toNullishExpr(expr, optChain); ok {\n",
           "\t\t{\n\t\t\tif nullishExpr, ok := toNullishExpr(expr, optChain); ok && m.o.minVersion(2020) {\n")


def ctl_gate_negated(rw):
    rw.sub("js/js.go", "if len(expr.Args.List) == 2 && m.o.minVersion(2016) {", "if len(expr.Args.List) == 2 && !m.o.minVersion(2016) {")


def ctl_template_always(rw):
    rw.sub("js/js.go", "m.write(minifyString(expr.Data, m.o.minVersion(2015)))", "m.write(minifyString(expr.Data, true))")


def ctl_new_ungated_producer(rw):
    rw.sub("js/js.go", "\t\tif expr.Optional {\n\t\t\tm.write(questionBytes)\n", "\t\tif expr.Optional || m.o.KeepVarNames {\n\t\t\tm.write(optChainBytes[:1])\n")


def ctl_optchain_unflagged(rw):
    t = rw.read("js/js.go")
    old = "\t\tif expr.Optional {\n\t\t\tm.write(optChainBytes)\n\t\t}\n\t\tm.minifyArguments(expr.Args)\n"
    assert old in t
    rw.write("js/js.go", t.replace(old, "\t\tm.write(optChainBytes)\n\t\tm.minifyArguments(expr.Args)\n"))


def ctl_gate_func_weakened(rw):
    rw.sub("js/js.go", "\treturn o.Version == 0 || version <= o.Version\n", "\treturn o.Version == 0 || version <= o.Version+1\n")


def ctl_cli_flag_rebound(rw):
    rw.sub("cmd/minify/main.go", 'f.AddOpt(&htmlMinifier.KeepQuotes, "", "html-keep-quotes",', 'f.AddOpt(&htmlMinifier.KeepEndTags, "", "html-keep-quotes",')


def ctl_cli_flag_dropped(rw):
    rw.resub("cmd/minify/main.go", r'^\tf\.AddOpt\(&jsonMinifier\.KeepNumbers[^\n]*\n', "")


def ctl_new_option(rw):
    rw.sub("xml/xml.go", "type Minifier struct {\n\tKeepWhitespace bool\n", "type Minifier struct {\n\tKeepWhitespace bool\n\tKeepCDATA      bool\n")


T = ["c16_flags"]
REWRITES = [
    R("c16-extra-minifystring-call", T, "invariant", "add-unrelated-func", "js: another minifyString(x, false) caller", extra_minifystring_call),
    R("c16-gate-hoisted", T, "invariant", "extract-local", "js: minVersion(2016) hoisted into a local bool used in the condition", gate_hoisted, tests=["./js/..."]),
    R("c16-gate-nested", T, "invariant", "equivalent-form", "js: `a && minVersion(2016)` split into two nested ifs", gate_nested, tests=["./js/..."]),
    R("c16-gate-func-renamed", T, "invariant", "rename-func", "js: method minVersion -> atLeast", gate_func_renamed, tests=["./js/..."],
      known="JsVersionGates, OptionSites are identical; C01D's JsHoistFacts (owned by the C01D builder) matches the text `m.o.minVersion(2019)` of the catch-binding condition"),
    R("c16-gate-receiver-renamed", T, "invariant", "rename-receiver", "js: minVersion receiver and parameter renamed", gate_receiver_renamed),
    R("c16-producer-func-renamed", T, "invariant", "rename-func", "js: toNullishExpr -> toNullishOrOptional", producer_func_renamed, tests=["./js/..."]),
    R("c16-gate-cond-swapped", T, "invariant", "equivalent-form", "js: conjuncts of the 2019 gate swapped", gate_cond_swapped),
    R("c16-gate-early-exit", T, "invariant", "extract-helper", "js: the 2020 gate moves into a helper that returns early when the version is too low", gate_early_exit, tests=["./js/..."]),
    R("c16-expbytes-inline", T + ["c13_facts"], "invariant", "inline-var", "js: m.write([]byte(\"**\")) instead of the named slice", expbytes_inline),
    R("c16-expbytes-renamed", T + ["c13_facts"], "invariant", "rename-var", "js: expBytes/optChainBytes renamed", expbytes_renamed),
    R("c16-cli-var-renamed", T, "invariant", "rename-local", "cmd/minify: cssMinifier/jsMinifier option variables renamed", cli_var_renamed),
    R("c16-cli-flag-const", T, "invariant", "literal-to-const", "cmd/minify: a flag name becomes a string constant expression", cli_flag_const),
    R("c16-cli-ptr-hoisted", T, "invariant", "extract-local", "cmd/minify: &svgMinifier.Precision hoisted into a local pointer", cli_ptr_hoisted),
    R("c16-cli-reordered", T, "invariant", "reorder", "cmd/minify: AddOpt calls of the minifier options in reverse order", cli_reordered),
    R("c16-option-struct-moved", T, "invariant", "move-decl", "xml: type Minifier moves to another file", option_struct_moved),
    R("c16-option-unexported-field", T, "invariant", "add-unrelated-var", "xml.Minifier gets an unexported field", option_unexported_field),
    R("c16-optsite-receiver-renamed", T + ["c14_exits", "c12_skel"], "invariant", "rename-receiver", "xml Minify: receiver o -> opts", optsite_receiver_renamed),
    R("c16-optsite-cond-respelled", T, "invariant", "equivalent-form", "option conditions respelled (conjuncts reordered, `== true`)", optsite_cond_respelled, tests=["./svg/...", "./xml/..."]),
    R("c16-optsite-local-renamed", T, "invariant", "rename-local", "html Minify: the local an option is assigned to is renamed", optsite_local_renamed),
    R("c16-ctl-optsite-new-consumer", T, "changes", "control", "json: KeepNumbers consulted at a new place", ctl_optsite_new_consumer),
    R("c16-ctl-optsite-check-dropped", T, "changes", "control", "xml: a KeepWhitespace check disappears", ctl_optsite_check_dropped),
    R("c16-ctl-gate-dropped", T, "changes", "control", "Math.pow -> ** no longer gated on 2016", ctl_gate_dropped),
    R("c16-ctl-gate-version-lowered", T, "changes", "control", "nullish rewrite gated on 2019 instead of 2020", ctl_gate_version_lowered),
    R("c16-ctl-gate-collapsed", T, "changes", "control", "toNullishExpr evaluated before its gate in the same condition", ctl_gate_collapsed),
    R("c16-ctl-gate-negated", T, "changes", "control", "2016 gate negated", ctl_gate_negated),
    R("c16-ctl-template-always", T, "changes", "control", "template literals allowed regardless of the version", ctl_template_always),
    R("c16-ctl-optchain-unflagged", T, "changes", "control", "`?.` written for every call expression", ctl_optchain_unflagged),
    R("c16-ctl-gate-func-weakened", T, "changes", "control", "minVersion accepts one version too many", ctl_gate_func_weakened),
    R("c16-ctl-cli-flag-rebound", T, "changes", "control", "--html-keep-quotes bound to KeepEndTags", ctl_cli_flag_rebound),
    R("c16-ctl-cli-flag-dropped", T, "changes", "control", "--json-keep-numbers removed", ctl_cli_flag_dropped),
    R("c16-ctl-new-option", T, "changes", "control", "xml.Minifier gets a new exported option without a decision", ctl_new_option),
]

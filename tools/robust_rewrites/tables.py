# Rewrites aimed at the table generators: c17_tables, c03_tables, c04_tables, c06_tables, c01_prec, c19_extmap, c02_keywords/c02_sites.
import re


# ---------------- html / xml entity tables (c17, c03, c06) ----------------

def html_textrev_hoisted(rw):
    rw.sub("html/table.go", "\t'<':  []byte(\"&lt;\"),\n\t0:    []byte(\"&#0;\"),  // denotes U+FFFD, a literal NUL is dropped by the parser\n",
           "\t'<':  ltEscape,\n\t0:    []byte(\"&#0;\"),  // denotes U+FFFD, a literal NUL is dropped by the parser\n")
    rw.append("html/table.go", '\nvar ltEscape = []byte("&lt;")\n')


def html_textrev_keys_hex(rw):
    rw.sub("html/table.go", "\t'<':  []byte(\"&lt;\"),\n\t0:    []byte(\"&#0;\"),  // denotes U+FFFD, a literal NUL is dropped by the parser\n\t'\\r': []byte(\"&#13;\"),",
           "\t0x3c: []byte(\"&lt;\"),\n\t'\\x00': []byte(\"&#0;\"),  // denotes U+FFFD, a literal NUL is dropped by the parser\n\t13: []byte(\"&#13;\"),")
    rw.gofmt("html/table.go")


def html_textrev_key_const(rw):
    rw.sub("html/table.go", "\t'<':  []byte(\"&lt;\"),\n\t0:    []byte", "\tlessThan:  []byte(\"&lt;\"),\n\t0:    []byte")
    rw.append("html/table.go", "\nconst lessThan = '<'\n")
    rw.gofmt("html/table.go")


def html_entity_value_string_conv(rw):
    rw.sub("html/table.go", '\t"AMP":                             []byte("&"),\n', '\t"AMP":                             []byte(ampersand),\n')
    rw.append("html/table.go", '\nconst ampersand = "&"\n')


def html_entity_value_concat(rw):
    rw.sub("html/table.go", '[]byte("&#198;"),', '[]byte("&#" + "198;"),', count=0)


def html_entities_reordered(rw):
    t = rw.read("html/table.go")
    s = t.index("var EntitiesMap = map[string][]byte{\n") + len("var EntitiesMap = map[string][]byte{\n")
    e = t.index("\n}\n", s) + 1
    rows = t[s:e].splitlines(keepends=True)
    assert len(rows) > 1000
    rw.write("html/table.go", t[:s] + "".join(reversed(rows)) + t[e:])
    rw.gofmt("html/table.go")


def html_tables_moved(rw):
    rw.move_decl("html/table.go", r"^var TextRevEntitiesMap = ", "html/escapes.go")
    rw.move_decl("html/table.go", r"^var AttrRevEntitiesMap = ", "html/escapes.go")
    rw.move_decl("html/table.go", r"^var jsMimetypes = ", "html/escapes.go")


def html_table_comments(rw):
    rw.sub("html/table.go", "var tagMap = map[Hash]traits{\n", "// tagMap: traits per tag\n\nvar tagMap = map[Hash]traits{\n\t// anchors first\n\n")
    rw.gofmt("html/table.go")


def html_traits_explicit(rw):
    rw.sub("html/table.go", "\tbooleanAttr traits = 1 << iota\n\turlAttr\n\ttrimAttr\n", "\tbooleanAttr traits = 1\n\turlAttr     traits = 2\n\ttrimAttr    traits = 4\n")


def html_traits_reparen(rw):
    rw.sub("html/table.go", "\tAddress:    blockTag | omitPTag,\n", "\tAddress:    (omitPTag | blockTag),\n")
    rw.gofmt("html/table.go")


def html_traits_named_combo(rw):
    rw.sub("html/table.go", "\tAddress:    blockTag | omitPTag,\n\tArea:       normalTag,\n\tArticle:    blockTag | omitPTag,\n", "\tAddress:    blockOmitP,\n\tArea:       normalTag,\n\tArticle:    blockOmitP,\n")
    rw.append("html/table.go", "\nconst blockOmitP = blockTag | omitPTag\n")


def html_traits_type_renamed(rw):
    rw.rename("html", "traits", "traitBits")


def html_tagmap_renamed_local_use(rw):
    # a helper is put in front of the table's only reader; the table itself is untouched
    rw.append("html/table.go", "\nfunc traitsOf(h Hash) traits { return tagMap[h] }\n\nvar _ = traitsOf\n")


def html_jsmime_false_row(rw):
    rw.sub("html/table.go", '\t"application/javascript": true,\n', '\t"application/javascript": true,\n\t"text/vbscript":          false,\n')


def xml_value_hoisted(rw):
    rw.sub("xml/table.go", "var TextRevEntitiesMap = map[byte][]byte{\n\t'<': []byte(\"&lt;\"),\n\t'&': []byte(\"&amp;\"),\n}",
           "var (\n\tltRef  = []byte(\"&lt;\")\n\tampRef = []byte(\"&amp;\")\n)\n\nvar TextRevEntitiesMap = map[byte][]byte{\n\t'<': ltRef,\n\t'&': ampRef,\n}")


def xml_keys_int(rw):
    rw.sub("xml/table.go", "\t'\\t': []byte(\"&#9;\"),\n\t'\\n': []byte(\"&#10;\"),\n\t'\\r': []byte(\"&#13;\"),\n", "\t9:    []byte(\"&#9;\"),\n\t0x0a: []byte(\"&#10;\"),\n\t'\\x0d': []byte(\"&#13;\"),\n")
    rw.gofmt("xml/table.go")


def xml_rows_reordered(rw):
    rw.sub("xml/table.go", "\t\"apos\": []byte(\"'\"),\n\t\"gt\":   []byte(\">\"),\n\t\"quot\": []byte(\"\\\"\"),\n", "\t\"quot\": []byte(`\"`),\n\t\"gt\":   []byte(\">\"),\n\t\"apos\": []byte(\"\\x27\"),\n")


def xml_tables_one_block(rw):
    t = rw.read("xml/table.go")
    t = t.replace("var EntitiesMap = ", "var (\n\tEntitiesMap = ", 1)
    t = t.replace("\nvar TextRevEntitiesMap = ", "\nTextRevEntitiesMap = ", 1).replace("\nvar AttrRevEntitiesMap = ", "\nAttrRevEntitiesMap = ", 1)
    rw.write("xml/table.go", t.rstrip("\n") + "\n)\n")
    rw.gofmt("xml/table.go")


# ---------------- css / svg tables (c17, c04) ----------------

def css_hex_value_hoisted(rw):
    rw.sub("css/table.go", '\t"#f00":    []byte("red"),\n', '\t"#f00":    redName,\n')
    rw.append("css/table.go", '\nvar redName = []byte("red")\n')


def css_zero_dim_var_true(rw):
    rw.sub("css/table.go", '\t"px":   true,\n', '\t"px":   yes,\n')
    rw.append("css/table.go", "\nconst yes = true\n")


def css_colorname_key_alias(rw):
    rw.sub("css/table.go", '\tBlack:                []byte("#000"),\n', '\tblackKeyword:         []byte("#000"),\n')
    rw.append("css/table.go", "\nconst blackKeyword = Black\n")
    rw.gofmt("css/table.go")


def css_tables_moved(rw):
    rw.move_decl("css/table.go", r"^var ShortenColorHex = ", "css/colors.go")
    rw.move_decl("css/table.go", r"^var optionalZeroDimension = ", "css/colors.go")


def css_pseudo_hash_in_hash_go(rw):
    # an unrelated pseudo hash constant placed in hash.go (not a row of the perfect-hash table)
    rw.append("css/hash.go", "\nconst noSuchHash Hash = 0xffffff00\n")


def css_hash_consts_moved(rw):
    # hash.go split: the name table moves to another file of the package
    rw.move_decl("css/hash.go", r"^var _Hash_text = ", "css/hash_text.go")


def svg_colorattr_reordered(rw):
    rw.sub("svg/table.go", "\tColor:          true,\n\tFill:           true,\n", "\tFill:           true,\n\tColor:          true,\n")


# ---------------- js precedence tables (c01) ----------------

def js_prec_moved(rw):
    rw.move_decl("js/util.go", r"^var unaryPrecMap = ", "js/prec.go")
    rw.add_imports("js/prec.go", "github.com/tdewolff/parse/v2/js")


def js_prec_import_alias(rw):
    rw.move_decl("js/util.go", r"^var unaryPrecMap = ", "js/prec.go")
    rw.add_imports("js/prec.go", "github.com/tdewolff/parse/v2/js")
    rw.sub("js/prec.go", 'import "github.com/tdewolff/parse/v2/js"', 'import jsp "github.com/tdewolff/parse/v2/js"')
    rw.resub("js/prec.go", r"\bjs\.", "jsp.", count=0)


def js_prec_value_const(rw):
    rw.sub("js/util.go", "\tjs.ExpToken:        js.OpUpdate,\n", "\tjs.ExpToken:        precOfExpOperand,\n")
    rw.append("js/util.go", "\nconst precOfExpOperand = js.OpUpdate\n")


def js_prec_rows_reordered(rw):
    t = rw.read("js/util.go")
    m = re.search(r"var binaryLeftPrecMap = map\[js\.TokenType\]js\.OpPrec\{\n((?:\t[^\n]*\n)+?)\}", t)
    rows = m.group(1).splitlines(keepends=True)
    assert len(rows) > 20
    rw.write("js/util.go", t[:m.start(1)] + "".join(reversed(rows)) + t[m.end(1):])


def js_prec_maps_renamed_type(rw):
    rw.sub("js/util.go", "var unaryPrecMap = map[js.TokenType]js.OpPrec{", "type precTable = map[js.TokenType]js.OpPrec\n\nvar unaryPrecMap = precTable{")


# ---------------- cmd/minify extMap (c19) ----------------

def extmap_reordered(rw):
    rw.sub("cmd/minify/main.go", '\t"asp":         "text/asp",\n\t"css":         "text/css",\n', '\t"css":         "text/css",\n\t"asp":         "text/asp",\n')


def extmap_value_const(rw):
    rw.sub("cmd/minify/main.go", '\t"js":          "application/javascript",\n', '\t"js":          jsMime,\n')
    rw.sub("cmd/minify/main.go", '\t"mjs":         "application/javascript",\n', '\t"mjs":         jsMime,\n')
    rw.append("cmd/minify/main.go", '\nconst jsMime = "application/" + "javascript"\n')


def extmap_moved(rw):
    rw.move_decl("cmd/minify/main.go", r"^var extMap = ", "cmd/minify/types.go")


def extmap_named_type(rw):
    rw.sub("cmd/minify/main.go", "var extMap = map[string]string{", "type extTable map[string]string\n\nvar extMap = extTable{")


# ---------------- c02 ----------------

def renamer_range_alias(rw):
    rw.sub("js/vars.go", "range js.Keywords", "range reservedWords()")
    rw.append("js/vars.go", "\nfunc reservedWords() map[string]js.TokenType { return js.Keywords }\n")


def rename_sites_local_renamed(rw):
    rw.rename_in_func("js/vars.go", r"\(r \*renamer\) renameScope", "r", "rn")


def html_tagmap_renamed(rw):
    rw.rename("html", "tagMap", "tagTraits")


def html_trait_const_renamed(rw):
    rw.rename("html", "rawTag", "rawTextTag")


# ---------------- controls ----------------

def ctl_html_entity_value(rw):
    rw.sub("html/table.go", '\t"AMP":                             []byte("&"),\n', '\t"AMP":                             []byte("&amp"),\n')


def ctl_html_entity_value_via_var(rw):
    rw.sub("html/table.go", "\t'<':  []byte(\"&lt;\"),\n", "\t'<':  ltEscape,\n")
    rw.append("html/table.go", '\nvar ltEscape = []byte("&LT;")\n')


def ctl_html_textrev_key(rw):
    rw.sub1("html/table.go", "\t'\\r': []byte(\"&#13;\"), // a literal CR", "\t'\\n': []byte(\"&#13;\"), // a literal CR")


def ctl_html_trait_changed(rw):
    rw.sub("html/table.go", "\tAudio:      objectTag | keepPTag,\n", "\tAudio:      objectTag,\n")


def ctl_html_trait_const_reordered(rw):
    rw.sub("html/table.go", "\tbooleanAttr traits = 1 << iota\n\turlAttr\n\ttrimAttr\n", "\tbooleanAttr traits = 1 << iota\n\ttrimAttr\n\turlAttr\n")


def ctl_html_jsmime_added(rw):
    rw.sub("html/table.go", '\t"application/javascript": true,\n', '\t"application/javascript": true,\n\t"module":                 true,\n')


def ctl_xml_row_dropped(rw):
    rw.sub("xml/table.go", "\t'\\t': []byte(\"&#9;\"),\n", "")


def ctl_xml_value_const_changed(rw):
    rw.sub("xml/table.go", "var TextRevEntitiesMap = map[byte][]byte{\n\t'<': []byte(\"&lt;\"),", "var ltRef = []byte(\"<\")\n\nvar TextRevEntitiesMap = map[byte][]byte{\n\t'<': ltRef,")


def ctl_css_hex_value(rw):
    rw.sub("css/table.go", '\t"#f00":    []byte("red"),\n', '\t"#f00":    []byte("tan"),\n')


def ctl_css_unit_added(rw):
    rw.sub("css/table.go", '\t"px":   true,\n', '\t"px":   true,\n\t"dpi":  true,\n')


def ctl_css_colorname_key_other(rw):

        rw.sub("css/table.go", '\tDarkblue:             []byte("#00008b"),\n', '\tDarkblue:             []byte("#00008c"),\n')


def ctl_svg_colorattr_added(rw):
    rw.sub("svg/table.go", "\tFill:           true,\n", "\tFill:           true,\n\tFilter:         true,\n")


def ctl_js_prec_value(rw):
    rw.sub("js/util.go", "\tjs.ExpToken:        js.OpUpdate,\n", "\tjs.ExpToken:        js.OpExp,\n")


def ctl_js_prec_row_dropped(rw):
    rw.sub("js/util.go", "\tjs.NullishEqToken:  js.OpLHS,\n", "")


def ctl_extmap_value(rw):
    rw.sub("cmd/minify/main.go", '\t"mjs":         "application/javascript",\n', '\t"mjs":         "text/javascript",\n')


def ctl_extmap_const_value(rw):
    rw.sub("cmd/minify/main.go", '\t"mjs":         "application/javascript",\n', '\t"mjs":         mjsMime,\n')
    rw.append("cmd/minify/main.go", '\nconst mjsMime = "application/node"\n')


def ctl_renamer_other_source(rw):
    rw.sub("js/vars.go", "range js.Keywords", "range reservedWords()")
    rw.append("js/vars.go", '\nfunc reservedWords() map[string]js.TokenType {\n\treturn map[string]js.TokenType{"if": js.IfToken}\n}\n')


HT = ["c17_tables", "c03_tables"]
XT = ["c17_tables", "c06_tables"]
CT = ["c17_tables", "c04_tables"]
REWRITES = [
    R("tab-html-textrev-hoisted", HT, "invariant", "extract-var", "html.TextRevEntitiesMap: one value hoisted into a named package-level slice", html_textrev_hoisted, tests=["./html/..."]),
    R("tab-html-textrev-keys-hex", HT, "invariant", "literal-form", "html.TextRevEntitiesMap keys as 0x3c / '\\x00' / 13", html_textrev_keys_hex, tests=["./html/..."]),
    R("tab-html-textrev-key-const", HT, "invariant", "literal-to-const", "html.TextRevEntitiesMap: key '<' through a named constant", html_textrev_key_const),
    R("tab-html-entity-value-const", HT, "invariant", "literal-to-const", "html.EntitiesMap: []byte(named string constant)", html_entity_value_string_conv),
    R("tab-html-entity-value-concat", HT, "invariant", "literal-form", "html.EntitiesMap: value written as a constant concatenation", html_entity_value_concat),
    R("tab-html-entities-reordered", HT, "invariant", "reorder-entries", "html.EntitiesMap rows in reverse order", html_entities_reordered),
    R("tab-html-tables-moved", HT, "invariant", "move-decl", "html: the two escape maps and jsMimetypes move to another file", html_tables_moved),
    R("tab-html-table-comments", HT, "invariant", "comments", "html.tagMap: comments and blank lines inside the literal", html_table_comments),
    R("tab-html-traits-explicit", HT, "invariant", "literal-form", "html attr traits: explicit values 1, 2, 4 instead of 1 << iota", html_traits_explicit),
    R("tab-html-traits-reparen", HT, "invariant", "equivalent-form", "html.tagMap: (omitPTag | blockTag) for blockTag | omitPTag", html_traits_reparen),
    R("tab-html-traits-named-combo", HT, "invariant", "extract-const", "html.tagMap: blockTag | omitPTag through a named constant", html_traits_named_combo),
    R("tab-html-traits-type-renamed", HT, "invariant", "rename-type", "html: type traits -> traitBits", html_traits_type_renamed),
    R("tab-html-traits-accessor", HT, "invariant", "add-unrelated-func", "html: unrelated accessor function over tagMap", html_tagmap_renamed_local_use),
    R("tab-html-jsmime-false-row", HT, "invariant", "add-noop-entry", "html.jsMimetypes: a row mapped to false (same as absent)", html_jsmime_false_row),
    R("tab-html-tagmap-renamed", HT, "invariant", "rename-var", "html: table variable tagMap -> tagTraits", html_tagmap_renamed,
      known="the name of a table variable is how the Lean model refers to the table"),
    R("tab-html-trait-const-renamed", HT, "invariant", "rename-const", "html: trait constant rawTag -> rawTextTag", html_trait_const_renamed,
      known="trait constants become the constructors of the generated inductive type; the models name them"),
    R("tab-xml-value-hoisted", XT, "invariant", "extract-var", "xml.TextRevEntitiesMap: values are named package-level slices", xml_value_hoisted, tests=["./xml/..."]),
    R("tab-xml-keys-int", XT, "invariant", "literal-form", "xml.AttrRevEntitiesMap keys as 9 / 0x0a / '\\x0d'", xml_keys_int),
    R("tab-xml-rows-reordered", XT, "invariant", "reorder-entries", "xml.EntitiesMap rows reordered, raw-string and \\x27 literals", xml_rows_reordered),
    R("tab-xml-one-var-block", XT, "invariant", "reorder-decls", "xml: the three tables in one var ( … ) block", xml_tables_one_block),
    R("tab-css-hex-value-hoisted", CT, "invariant", "extract-var", "css.ShortenColorHex: one value hoisted into a named slice", css_hex_value_hoisted),
    R("tab-css-zero-dim-const-true", CT, "invariant", "literal-to-const", "css.optionalZeroDimension: true through a named constant", css_zero_dim_var_true),
    R("tab-css-colorname-key-alias", CT, "invariant", "literal-to-const", "css.ShortenColorName: key through an alias constant of the Hash", css_colorname_key_alias),
    R("tab-css-tables-moved", CT, "invariant", "move-decl", "css: ShortenColorHex, optionalZeroDimension move to another file", css_tables_moved),
    R("tab-css-pseudo-hash-in-hash-go", CT, "invariant", "add-unrelated-const", "css/hash.go: an unrelated Hash constant that is not in the hash table", css_pseudo_hash_in_hash_go),
    R("tab-css-hash-text-moved", CT, "invariant", "move-decl", "css: _Hash_text moves out of hash.go", css_hash_consts_moved),
    R("tab-svg-colorattr-reordered", ["c17_tables"], "invariant", "reorder-entries", "svg.colorAttrMap rows reordered", svg_colorattr_reordered),
    R("tab-js-prec-moved", ["c01_prec"], "invariant", "move-decl", "js.unaryPrecMap moves to another file", js_prec_moved),
    R("tab-js-prec-import-alias", ["c01_prec"], "invariant", "import-alias", "js.unaryPrecMap in a file importing parse/js under another name", js_prec_import_alias),
    R("tab-js-prec-value-const", ["c01_prec"], "invariant", "literal-to-const", "js.unaryPrecMap: one precedence through a named constant", js_prec_value_const),
    R("tab-js-prec-rows-reordered", ["c01_prec"], "invariant", "reorder-entries", "js.binaryLeftPrecMap rows in reverse order", js_prec_rows_reordered),
    R("tab-js-prec-type-alias", ["c01_prec"], "invariant", "equivalent-form", "js.unaryPrecMap declared through a type alias of the map type", js_prec_maps_renamed_type),
    R("tab-extmap-reordered", ["c19_extmap"], "invariant", "reorder-entries", "cmd/minify extMap rows reordered", extmap_reordered),
    R("tab-extmap-value-const", ["c19_extmap"], "invariant", "literal-to-const", "cmd/minify extMap: value through a constant expression", extmap_value_const),
    R("tab-extmap-moved", ["c19_extmap"], "invariant", "move-decl", "cmd/minify extMap moves to another file", extmap_moved),
    R("tab-extmap-named-type", ["c19_extmap"], "invariant", "equivalent-form", "cmd/minify extMap declared with a named map type", extmap_named_type),
    R("tab-renamer-range-helper", ["c02_keywords", "c02_sites", "c13_facts"], "invariant", "extract-helper", "newRenamer ranges over a helper returning js.Keywords", renamer_range_alias),
    R("tab-renamescope-receiver-renamed", ["c02_sites"], "invariant", "rename-receiver", "renameScope receiver r -> rn", rename_sites_local_renamed),
    R("tab-ctl-html-entity-value", HT, "changes", "control", "html.EntitiesMap[AMP] altered", ctl_html_entity_value),
    R("tab-ctl-html-value-via-var", HT, "changes", "control", "html.TextRevEntitiesMap['<'] hoisted AND altered", ctl_html_entity_value_via_var),
    R("tab-ctl-html-textrev-key", HT, "changes", "control", "html.TextRevEntitiesMap key \\r -> \\n", ctl_html_textrev_key),
    R("tab-ctl-html-trait-changed", HT, "changes", "control", "html.tagMap[audio] loses keepPTag", ctl_html_trait_changed),
    R("tab-ctl-html-trait-consts-reordered", HT, "changes", "control", "html attr trait constants swap their bits", ctl_html_trait_const_reordered),
    R("tab-ctl-html-jsmime-added", HT, "changes", "control", "html.jsMimetypes gets another true row", ctl_html_jsmime_added),
    R("tab-ctl-xml-row-dropped", XT, "changes", "control", "xml.AttrRevEntitiesMap loses the tab row", ctl_xml_row_dropped),
    R("tab-ctl-xml-value-via-var", XT, "changes", "control", "xml.TextRevEntitiesMap['<'] hoisted AND altered", ctl_xml_value_const_changed),
    R("tab-ctl-css-hex-value", CT, "changes", "control", "css.ShortenColorHex[#f00] altered", ctl_css_hex_value),
    R("tab-ctl-css-unit-added", CT, "changes", "control", "css.optionalZeroDimension gets dpi", ctl_css_unit_added),
    R("tab-ctl-css-colorname-value", CT, "changes", "control", "css.ShortenColorName[darkblue] altered", ctl_css_colorname_key_other),
    R("tab-ctl-svg-colorattr-added", ["c17_tables"], "changes", "control", "svg.colorAttrMap gets filter", ctl_svg_colorattr_added),
    R("tab-ctl-js-prec-value", ["c01_prec"], "changes", "control", "js.unaryPrecMap[**] altered", ctl_js_prec_value),
    R("tab-ctl-js-prec-row-dropped", ["c01_prec"], "changes", "control", "js.unaryPrecMap loses a row", ctl_js_prec_row_dropped),
    R("tab-ctl-extmap-value", ["c19_extmap"], "changes", "control", "cmd/minify extMap[mjs] altered", ctl_extmap_value),
    R("tab-ctl-extmap-const-value", ["c19_extmap"], "changes", "control", "cmd/minify extMap[mjs] through a constant with another value", ctl_extmap_const_value),
    R("tab-ctl-renamer-other-source", ["c02_keywords"], "changes", "control", "newRenamer no longer takes its reserved words from js.Keywords", ctl_renamer_other_source),
]

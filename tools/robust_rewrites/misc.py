# Cross-cutting harmless rewrites (every generator must be invariant) and a few that complete the classes of tools/robust.py's brief.

def new_exported_helper(rw):
    rw.append("xml/xml.go", """
// IsVoidBytes reports whether b is the void-element ending (unrelated new exported helper).
func IsVoidBytes(b []byte) bool { return len(b) == len(voidBytes) && string(b) == string(voidBytes) }
""")


def reorder_funcs(rw):
    rw.move_func("minify.go", r"\(m \*M\) Bytes\(", "minify.go")   # to the end of the same file
    rw.move_func("minify.go", r"\(z \*writer\) Close\(", "minify.go")
    rw.move_func("js/js.go", r"\(o \*Minifier\) minVersion", "js/js.go")


def comments_everywhere(rw):
    for f in ("minify.go", "js/js.go", "xml/xml.go", "css/table.go", "cmd/minify/main.go"):
        t = rw.read(f)
        t = t.replace("\nfunc ", "\n// (comment added)\n\nfunc ", 3)
        rw.write(f, t)
        rw.gofmt(f)


def gate_inlined(rw):
    rw.sub("js/js.go", "if len(expr.Args.List) == 2 && m.o.minVersion(2016) {", "if len(expr.Args.List) == 2 && (m.o.Version == 0 || 2016 <= m.o.Version) {")


def unrelated_switch(rw):
    rw.append("svg/svg.go", """
func kindOf(b []byte) int {
	switch {
	case len(b) == 0:
		return 0
	case b[0] == '<':
		return 1
	}
	return 2
}

var _ = kindOf
""")


ALL = ["c01_prec", "c04_tables", "c06_tables", "c10_api", "c12_skel", "c13_facts", "c14_exits", "c16_flags", "c17_tables", "c18_table", "c19_extmap", "c02_keywords", "c02_sites", "c03_tables"]
REWRITES = [
    R("misc-new-exported-helper", ALL, "invariant", "add-unrelated-func", "xml: new exported helper reading a package-level slice through string()", new_exported_helper),
    R("misc-reorder-funcs", ALL, "invariant", "reorder-decls", "minify.go / js.go: functions moved to the end of their file", reorder_funcs),
    R("misc-comments-everywhere", ALL, "invariant", "comments", "comments and blank lines in front of functions in five files", comments_everywhere),
    R("misc-unrelated-switch", ALL, "invariant", "add-unrelated-func", "svg: unrelated function with a tagless switch", unrelated_switch),
    R("c16-gate-inlined", ["c16_flags"], "invariant", "inline-helper", "js: minVersion(2016) written out as `Version == 0 || 2016 <= Version`", gate_inlined, tests=["./js/..."],
      known="JsVersionGates is identical; OptionSites (every read of an option field, by design of option_sites_ok) sees two more reads of Version"),
]

# Rewrites aimed at harness/cmd/extract/c12_skel.go (Gen/Wrappers.lean; Props/C12 wf_generated, gen_wf*).

def pipe_vars_renamed(rw):
    rw.rename_in_func("minify.go", r"\(m \*M\) Writer\(", "pr", "rd")
    rw.rename_in_func("minify.go", r"\(m \*M\) Writer\(", "pw", "wr")
    rw.rename_in_func("minify.go", r"\(m \*M\) Reader\(", "pr", "pipeR")
    rw.rename_in_func("minify.go", r"\(m \*M\) Reader\(", "pw", "pipeW")


def writer_var_renamed(rw):
    rw.rename_in_func("minify.go", r"\(m \*M\) Writer\(", "z", "mw")
    rw.rename_in_func("minify.go", r"\(w \*responseWriter\) Write\(", "z", "zw")


def receiver_renamed(rw):
    rw.rename_in_func("minify.go", r"\(z \*writer\) Close\(", "z", "wr")
    rw.rename_in_func("minify.go", r"\(w \*responseWriter\) WriteHeader\(", "w", "rw")
    rw.rename_in_func("minify.go", r"\(w \*responseWriter\) Close\(", "w", "rw")


def params_renamed(rw):
    rw.rename_in_func("minify.go", r"\(m \*M\) Writer\(", "w", "dst")
    rw.rename_in_func("minify.go", r"\(m \*M\) Reader\(", "r", "src")
    rw.rename_in_func("minify.go", r"\(m \*M\) Reader\(", "mediatype", "mt")
    rw.rename_in_func("minify.go", r"\(w \*responseWriter\) WriteHeader\(", "status", "code")
    rw.rename_in_func("minify.go", r"\(w \*responseWriter\) Write\(", "b", "p")
    rw.rename_in_func("minify.go", r"\(m \*M\) Middleware\(", "next", "h")


def err_renamed(rw):
    rw.rename_in_func("minify.go", r"\(z \*writer\) Close\(", "err", "cerr")
    rw.rename_in_func("minify.go", r"\(m \*M\) Writer\(", "err", "merr")


def writer_field_renamed(rw):
    # fields of the unexported writer struct
    rw.sub("minify.go", "\tclosed bool\n\terr    error\n}", "\tdone   bool\n\tmerr   error\n}")
    rw.rename_sel(".", "closed", "done", tests=False)
    rw.resub("minify.go", r"\bz\.err\b", "z.merr", count=0)


def writer_lit_keyed(rw):
    rw.sub("minify.go", "z := &writer{pw, sync.WaitGroup{}, false, nil}", "z := &writer{WriteCloser: pw}", count=2)


def reader_inverted(rw):
    rw.in_func("minify.go", r"\(m \*M\) Reader\(", "\t\tif err := m.Minify(mediatype, pw, r); err != nil {\n\t\t\tpw.CloseWithError(err)\n\t\t} else {\n\t\t\tpw.Close()\n\t\t}\n",
               "\t\tif err := m.Minify(mediatype, pw, r); err == nil {\n\t\t\tpw.Close()\n\t\t} else {\n\t\t\tpw.CloseWithError(err)\n\t\t}\n")


def reader_hoisted_err(rw):
    rw.in_func("minify.go", r"\(m \*M\) Reader\(", "\t\tif err := m.Minify(mediatype, pw, r); err != nil {\n", "\t\terr := m.Minify(mediatype, pw, r)\n\t\tif err != nil {\n")


def close_if_else(rw):
    rw.in_func("minify.go", r"\(z \*writer\) Close\(", "\tif z.err == nil {\n\t\treturn err\n\t}\n\treturn z.err\n", "\tif z.err != nil {\n\t\treturn z.err\n\t}\n\treturn err\n")


def closed_guard_nil_first(rw):
    rw.in_func("minify.go", r"\(z \*writer\) Close\(", "\tif z.closed {\n", "\tif z.closed == true {\n")


def comments_blank_lines(rw):
    rw.in_func("minify.go", r"\(m \*M\) Writer\(", "\tz.wg.Add(1)\n", "\n\t// one goroutine per writer\n\tz.wg.Add(1)\n\n")


def wrapper_moved(rw):
    rw.move_func("minify.go", r"\(m \*M\) Reader\(", "stream.go")
    rw.add_imports("stream.go", "io")


def responsewriter_keyed(rw):
    rw.sub("minify.go", "return &responseWriter{w, nil, m, mediatype}", "return &responseWriter{ResponseWriter: w, m: m, mediatype: mediatype}")


def middleware_named_handler(rw):
    rw.in_func("minify.go", r"\(m \*M\) Middleware\(", "\treturn http.HandlerFunc(func(w http.ResponseWriter, r *http.Request) {\n", "\treturn http.HandlerFunc(func(rw http.ResponseWriter, req *http.Request) {\n")
    rw.in_func("minify.go", r"\(m \*M\) Middleware\(", "\t\tmw := m.ResponseWriter(w, r)\n\t\tnext.ServeHTTP(mw, r)\n", "\t\tmw := m.ResponseWriter(rw, req)\n\t\tnext.ServeHTTP(mw, req)\n")


def input_param_renamed(rw):
    rw.rename_in_func("xml/xml.go", r"\(o \*Minifier\) Minify", "r", "src")
    rw.rename_in_func("css/css.go", r"Minify\(m \*minify\.M", "r", "src")


def header_const(rw):
    rw.sub("minify.go", 'w.ResponseWriter.Header().Del("Content-Length")', "w.ResponseWriter.Header().Del(headerContentLength)")
    rw.append("minify.go", '\nconst headerContentLength = "Content-Length"\n')


# ---- controls ----

def ctl_wait_after_return(rw):
    rw.in_func("minify.go", r"\(z \*writer\) Close\(", "\terr := z.WriteCloser.Close()\n\tz.wg.Wait()\n", "\tz.wg.Wait()\n\terr := z.WriteCloser.Close()\n")


def ctl_no_pipe_close(rw):
    rw.in_func("minify.go", r"\(m \*M\) Writer\(", "\t\tdefer pr.Close()\n", "")


def ctl_store_err_dropped(rw):
    rw.in_func("minify.go", r"\(m \*M\) Writer\(", "\t\t\tz.err = err\n", "\t\t\t_ = err\n")


def ctl_reader_no_close_with_error(rw):
    rw.in_func("minify.go", r"\(m \*M\) Reader\(", "\t\t\tpw.CloseWithError(err)\n", "\t\t\tpw.Close()\n")


def ctl_keep_content_length(rw):
    rw.sub("minify.go", '\tw.ResponseWriter.Header().Del("Content-Length")\n', "")


def ctl_header_const_wrong(rw):
    rw.sub("minify.go", 'w.ResponseWriter.Header().Del("Content-Length")', "w.ResponseWriter.Header().Del(headerContentLength)")
    rw.append("minify.go", '\nconst headerContentLength = "Content-Type"\n')


def ctl_close_prefers_close_err(rw):
    rw.in_func("minify.go", r"\(z \*writer\) Close\(", "\tif z.err == nil {\n\t\treturn err\n\t}\n\treturn z.err\n", "\tif err != nil {\n\t\treturn err\n\t}\n\treturn z.err\n")


def ctl_reader_other_source(rw):
    rw.in_func("xml/xml.go", r"\(o \*Minifier\) Minify", "\tz := parse.NewInput(r)\n", "\tz := parse.NewInput(io.LimitReader(r, 1<<20))\n")


def ctl_minify_other_dst(rw):
    rw.in_func("minify.go", r"\(m \*M\) Writer\(", "m.Minify(mediatype, w, pr)", "m.Minify(mediatype, pw, pr)")


def reader_close_with_error_direct(rw):
    # io.PipeWriter.Close is CloseWithError(nil)
    rw.in_func("minify.go", r"\(m \*M\) Reader\(", "\t\tif err := m.Minify(mediatype, pw, r); err != nil {\n\t\t\tpw.CloseWithError(err)\n\t\t} else {\n\t\t\tpw.Close()\n\t\t}\n",
               "\t\tpw.CloseWithError(m.Minify(mediatype, pw, r))\n")


def writer_store_err_direct(rw):
    rw.in_func("minify.go", r"\(m \*M\) Writer\(", "\t\tif err := m.Minify(mediatype, w, pr); err != nil {\n\t\t\tz.err = err\n\t\t}\n", "\t\tz.err = m.Minify(mediatype, w, pr)\n")


def rw_close_early_return(rw):
    rw.in_func("minify.go", r"\(w \*responseWriter\) Close\(", "\tif closer, ok := w.z.(interface{ Close() error }); ok {\n\t\treturn closer.Close()\n\t}\n\treturn nil\n",
               "\tcloser, ok := w.z.(io.Closer)\n\tif !ok {\n\t\treturn nil\n\t}\n\treturn closer.Close()\n")


def ctl_reader_close_with_error_nil(rw):
    rw.in_func("minify.go", r"\(m \*M\) Reader\(", "\t\tif err := m.Minify(mediatype, pw, r); err != nil {\n\t\t\tpw.CloseWithError(err)\n\t\t} else {\n\t\t\tpw.Close()\n\t\t}\n",
               "\t\tm.Minify(mediatype, pw, r)\n\t\tpw.CloseWithError(nil)\n")


def ctl_rw_close_wrong_polarity(rw):
    rw.in_func("minify.go", r"\(w \*responseWriter\) Close\(", "\tif closer, ok := w.z.(interface{ Close() error }); ok {\n\t\treturn closer.Close()\n\t}\n\treturn nil\n",
               "\tcloser, ok := w.z.(io.Closer)\n\tif ok {\n\t\treturn nil\n\t}\n\treturn closer.Close()\n")


_RW_PIPE = "\t\t\tpr, pw := io.Pipe()\n\t\t\tz := &writer{pw, sync.WaitGroup{}, false, nil}\n\t\t\tz.wg.Add(1)\n\t\t\tgo func() {\n\t\t\t\tdefer z.wg.Done()\n\t\t\t\tdefer pr.Close()\n\t\t\t\tif err := minifier(w.m, w.ResponseWriter, pr, params); err != nil {\n\t\t\t\t\tz.err = err\n\t\t\t\t}\n\t\t\t}()\n\t\t\tw.z = z\n"
_RW_OLD = "\t\tif _, params, minifier := w.m.Match(w.mediatype); minifier != nil {\n" + _RW_PIPE + "\t\t} else {\n\t\t\tw.z = w.ResponseWriter\n\t\t}\n"


def rw_match_split_inverted(rw):
    rw.in_func("minify.go", r"\(w \*responseWriter\) Write\(", _RW_OLD,
               "\t\t_, params, minifier := w.m.Match(w.mediatype)\n\t\tif minifier == nil {\n\t\t\tw.z = w.ResponseWriter\n\t\t} else {\n" + _RW_PIPE + "\t\t}\n")


def ctl_rw_match_arms_swapped(rw):
    # passes through when a minifier is registered
    rw.in_func("minify.go", r"\(w \*responseWriter\) Write\(", "\t\tif _, params, minifier := w.m.Match(w.mediatype); minifier != nil {\n", "\t\tif _, params, minifier := w.m.Match(\"\"); minifier != nil {\n")


T = ["c12_skel"]
REWRITES = [
    R("c12-pipe-vars-renamed", T, "invariant", "rename-local", "Writer/Reader: pr, pw renamed", pipe_vars_renamed, tests=["."]),
    R("c12-writer-var-renamed", T, "invariant", "rename-local", "Writer / responseWriter.Write: local z renamed", writer_var_renamed),
    R("c12-receiver-renamed", T, "invariant", "rename-receiver", "writer.Close, responseWriter.WriteHeader/Close: receivers renamed", receiver_renamed),
    R("c12-params-renamed", T, "invariant", "rename-param", "wrapper parameters renamed", params_renamed),
    R("c12-err-renamed", T, "invariant", "rename-local", "writer.Close / Writer: err renamed", err_renamed),
    R("c12-writer-field-renamed", T, "invariant", "rename-field", "unexported struct writer: closed -> done, err -> merr", writer_field_renamed, tests=["."]),
    R("c12-writer-lit-keyed", T, "invariant", "equivalent-form", "&writer{WriteCloser: pw} instead of the positional literal", writer_lit_keyed, tests=["."]),
    R("c12-reader-inverted", T, "invariant", "invert-if", "Reader goroutine: if err == nil { Close } else { CloseWithError }", reader_inverted, tests=["."]),
    R("c12-reader-hoisted-err", T, "invariant", "equivalent-form", "Reader goroutine: err := m.Minify(…) before the if", reader_hoisted_err),
    R("c12-close-if-else", T, "invariant", "invert-if", "writer.Close: if z.err != nil { return z.err }; return err", close_if_else, tests=["."]),
    R("c12-closed-guard-eq-true", T, "invariant", "equivalent-form", "writer.Close: if z.closed == true", closed_guard_nil_first),
    R("c12-comments-blank-lines", T, "invariant", "comments", "Writer: comments and blank lines", comments_blank_lines),
    R("c12-wrapper-moved", T, "invariant", "move-decl", "M.Reader moves to a new file of package minify", wrapper_moved),
    R("c12-responsewriter-keyed", T, "invariant", "equivalent-form", "&responseWriter{…} with field names", responsewriter_keyed),
    R("c12-middleware-handler-params", T, "invariant", "rename-param", "Middleware: parameters of the handler closure renamed", middleware_named_handler),
    R("c12-input-param-renamed", T + ["c14_exits"], "invariant", "rename-param", "xml (*Minifier).Minify and css.Minify: reader parameter r -> src", input_param_renamed),
    R("c12-header-const", T, "invariant", "literal-to-const", "\"Content-Length\" becomes a named constant", header_const),
    R("c12-ctl-wait-before-close", T, "changes", "control", "writer.Close waits for the goroutine before closing the pipe (deadlock)", ctl_wait_after_return),
    R("c12-ctl-no-pipe-close", T, "changes", "control", "Writer goroutine no longer closes the pipe reader", ctl_no_pipe_close),
    R("c12-ctl-store-err-dropped", T, "changes", "control", "Writer goroutine drops the minifier's error", ctl_store_err_dropped),
    R("c12-ctl-reader-close-without-error", T, "changes", "control", "Reader goroutine closes the pipe without the error", ctl_reader_no_close_with_error),
    R("c12-ctl-keep-content-length", T, "changes", "control", "WriteHeader keeps Content-Length", ctl_keep_content_length),
    R("c12-ctl-header-const-wrong", T, "changes", "control", "WriteHeader deletes another header through a constant", ctl_header_const_wrong),
    R("c12-ctl-close-prefers-close-err", T, "changes", "control", "writer.Close returns the pipe's close error before the minifier's", ctl_close_prefers_close_err),
    R("c12-ctl-reader-other-source", T, "changes", "control", "xml Minify wraps the reader before NewInput", ctl_reader_other_source),
    R("c12-ctl-minify-other-dst", T, "changes", "control", "Writer goroutine minifies into the pipe instead of the caller's writer", ctl_minify_other_dst),
    R("c12-reader-close-with-error-direct", T, "invariant", "equivalent-form", "Reader goroutine: pw.CloseWithError(m.Minify(…)) (Close is CloseWithError(nil); harmless H5-r2)", reader_close_with_error_direct, tests=["."]),
    R("c12-writer-store-err-direct", T, "invariant", "equivalent-form", "Writer goroutine: z.err = m.Minify(…) (harmless H5-r2)", writer_store_err_direct, tests=["."]),
    R("c12-rw-close-early-return", T, "invariant", "equivalent-form", "responseWriter.Close: io.Closer assertion with an early return (harmless H5-r2)", rw_close_early_return, tests=["."]),
    R("c12-ctl-reader-close-with-error-nil", T, "changes", "control", "Reader goroutine drops the error and closes with CloseWithError(nil)", ctl_reader_close_with_error_nil),
    R("c12-ctl-rw-close-wrong-polarity", T, "changes", "control", "responseWriter.Close: early return with the wrong polarity", ctl_rw_close_wrong_polarity),
    R("c12-rw-match-split-inverted", T, "invariant", "invert-if", "responseWriter.Write: Match as its own statement, pass-through arm first (harmless H5-r2)", rw_match_split_inverted, tests=["."]),
    R("c12-ctl-rw-match-empty-mediatype", T, "changes", "control", "responseWriter.Write matches the empty mediatype instead of the response's", ctl_rw_match_arms_swapped),
]
# Rewrites aimed at harness/cmd/extract/c13_facts.go (Gen/ConcFacts.lean, theorem Props/C13.facts_ok).

def ro_helper(rw):
    # a new in-repo helper receives a package-level slice and only reads it
    rw.sub("js/js.go", "bytes.Equal(alias.Name, starBytes)", "startsWith(alias.Name, starBytes)")
    rw.append("js/util.go", """
func startsWith(b, prefix []byte) bool {
	if len(b) < len(prefix) {
		return false
	}
	for i, c := range prefix {
		if b[i] != c {
			return false
		}
	}
	return true
}
""")


def ro_helper_chain(rw):
    # helper passes the slice on to another helper and to the stdlib
    rw.sub("svg/svg.go", "bytes.Equal(t.Text, xmlBytes)", "sameBytes(t.Text, xmlBytes)")
    rw.append("svg/svg.go", """
func sameBytes(a, b []byte) bool { return sameLen(a, b) && bytes.Compare(a, b) == 0 }

func sameLen(a, b []byte) bool { return len(a) == len(b) }
""")


def stdlib_readonly(rw):
    rw.add_imports("css/util.go", "bytes")
    rw.append("css/util.go", """
// unrelated new helper: only reads package-level slices through read-only stdlib functions
func looksLikeSeparator(b []byte) bool {
	if bytes.Contains(b, spaceBytes) || bytes.Index(b, commaBytes) == 0 || bytes.HasSuffix(b, semicolonBytes) {
		return true
	}
	if bytes.Compare(b, colonBytes) == 0 || bytes.EqualFold(b, importantBytes) || bytes.IndexByte(spaceBytes, ' ') == 0 {
		return true
	}
	c := append([]byte(nil), spaceBytes...)
	c = append(c, commaBytes...)
	return bytes.ContainsAny(b, string(c)) || bytes.LastIndex(b, rightParenBytes) > 0 || bytes.Count(b, spaceBytes) > 3
}

var _ = looksLikeSeparator
""")


def rename_writer_param(rw):
    rw.rename_in_func("json/json.go", r"\(o \*Minifier\) Minify", "w", "out")


def rename_receiver_cssmin(rw):
    # receiver of the css minifier methods: c -> cm (callee text `c.w.Write` becomes `cm.w.Write`)
    t = rw.read("css/css.go")
    import re
    t2, n = re.subn(r"^func \(c \*cssMinifier\) (\w+)\(", r"func (cm *cssMinifier) \1(", t, flags=re.M)
    assert n > 3
    # within those methods replace `c.` by `cm.` (the receiver is the only identifier named c there? no: be careful)
    out, pos = [], 0
    for m in re.finditer(r"^func \(cm \*cssMinifier\) [^\n]*\{\n", t2, re.M):
        e = t2.index("\n}\n", m.end() - 1) + 3
        out.append(t2[pos:m.end()])
        body = t2[m.end():e]
        body = re.sub(r"(?<![\w.])c\b(?=[.,)\s])", "cm", body)
        out.append(body)
        pos = e
    out.append(t2[pos:])
    rw.write("css/css.go", "".join(out))


def rename_mutex_field(rw):
    rw.sub("minify.go", "\tmutex   sync.RWMutex", "\tmu      sync.RWMutex")
    rw.rename_sel(".", "mutex", "mu", tests=False)


def rename_receiver_M(rw):
    for f in ("Add", "AddFunc", "AddRegexp", "AddFuncRegexp", "AddCmd", "AddCmdRegexp", "Match", "MinifyMimetype"):
        rw.rename_in_func("minify.go", r"\(m \*M\) %s\(" % f, "m", "reg")


def rename_registry_key(rw):
    rw.rename_in_func("minify.go", r"\(m \*M\) Add\(", "mimetype", "mt")


def write_closure(rw):
    rw.in_func("json/json.go", r"\(o \*Minifier\) Minify", "\tskipComma := true\n", "\tskipComma := true\n\twrite := w.Write\n")
    rw.in_func("json/json.go", r"\(o \*Minifier\) Minify", "w.Write(commaBytes)", "write(commaBytes)")
    rw.in_func("json/json.go", r"\(o \*Minifier\) Minify", "w.Write(colonBytes)", "write(colonBytes)")


def new_global(rw):
    rw.add_imports("xml/xml.go", "bytes")
    rw.append("xml/xml.go", """
var cdataStartBytes = []byte("<![CDATA[")

func isCDATAStart(b []byte) bool { return bytes.HasPrefix(b, cdataStartBytes) }

var _ = isCDATAStart
""")


def set_building_range(rw):
    rw.append("html/table.go", """
// unrelated: the set of tag hashes that are raw tags (built once, order-insensitive)
func rawTagSet() map[Hash]bool {
	set := map[Hash]bool{}
	for h, t := range tagMap {
		if t&rawTag != 0 {
			set[h] = true
		}
	}
	return set
}

var _ = rawTagSet
""")


def option_copy_renamed(rw):
    rw.sub("html/html.go", "\t\ttmp := *o // do not write to the caller's (possibly shared) option struct\n\t\to = &tmp\n",
           "\t\tprivate := *o\n\t\to = &private\n")


def option_copy_new(rw):
    rw.sub("html/html.go", "\t\ttmp := *o // do not write to the caller's (possibly shared) option struct\n\t\to = &tmp\n",
           "\t\ttmp := new(Minifier)\n\t\t*tmp = *o\n\t\to = tmp\n")


def move_byte_vars(rw):
    rw.move_decl("json/json.go", r"^var \($", "json/bytes.go")


def lock_defer_to_explicit(rw):
    # Match: `defer m.mutex.RUnlock()` stays (a different but equally valid skeleton is a control, not a harmless rewrite);
    # here only a blank line and a comment are added between the lock calls
    rw.in_func("minify.go", r"\(m \*M\) Add\(", "\tm.mutex.Lock()\n", "\t// registration takes the write lock\n\tm.mutex.Lock()\n\n")


def appendbase_func_renamed(rw):
    rw.rename("css", "minifyTokens", "minifyTokenList")
    rw.rename_sel("css", "minifyTokens", "minifyTokenList")


def store_via_helper(rw):
    rw.sub("css/css.go", "\t\t\t\tvalues[start].Data = noneBytes\n", "\t\t\t\tsetData(&values[start], noneBytes)\n")
    rw.append("css/css.go", "\nfunc setData(t *Token, b []byte) { t.Data = b }\n")


# ---- controls ----

def ctl_elem_write(rw):
    rw.append("js/util.go", "\nfunc resetSpace() { spaceBytes[0] = ' ' }\n\nvar _ = resetSpace\n")


def ctl_write_via_helper(rw):
    rw.append("css/util.go", """
func blank(b []byte) {
	for i := range b {
		b[i] = ' '
	}
}

func resetComma() { blank(commaBytes) }

var _ = resetComma
""")


def ctl_write_via_helper_chain(rw):
    rw.append("css/util.go", """
func blank2(b []byte) { blank1(b[:1]) }

func blank1(b []byte) { copy(b, " ") }

func resetComma() { blank2(commaBytes) }

var _ = resetComma
""")


def ctl_write_via_alias(rw):
    rw.append("css/util.go", """
func resetComma() {
	b := commaBytes
	b = b[:1]
	b[0] = ','
}

var _ = resetComma
""")


def ctl_helper_stores_then_writes(rw):
    rw.sub("js/js.go", "\tm.prev = b\n", "\tm.prev = b\n\tif 40 < len(m.prev) {\n\t\tm.prev[0] = ' '\n\t}\n")


def ctl_tolower_global(rw):
    # parse.ToLower writes in place
    rw.append("html/html.go", "\nfunc lowerGet() []byte { return parse.ToLower(getBytes) }\n\nvar _ = lowerGet\n")


def ctl_drop_option_copy(rw):
    rw.sub("html/html.go", "\t\ttmp := *o // do not write to the caller's (possibly shared) option struct\n\t\to = &tmp\n", "")


def ctl_svg_option_write(rw):
    rw.sub("svg/svg.go", "\ttmp := &Minifier{}\n\t*tmp = *o\n\to = tmp\n", "")


def svg_option_copy_value(rw):
    rw.sub("svg/svg.go", "\ttmp := &Minifier{}\n\t*tmp = *o\n\to = tmp\n", "\tcp := *o\n\to = &cp\n")


def ctl_registry_write_under_rlock(rw):
    rw.in_func("minify.go", r"\(m \*M\) MinifyMimetype", "\t\tif minifier.pattern.Match(mimetype) {\n",
               "\t\tif minifier.pattern.Match(mimetype) {\n\t\t\tm.literal[string(mimetype)] = minifier\n")


def ctl_unlock_dropped(rw):
    rw.in_func("minify.go", r"\(m \*M\) AddFunc\(", "\tm.mutex.Unlock()\n", "")


def ctl_append_global(rw):
    rw.append("xml/xml.go", "\nfunc voidAnd(b []byte) []byte { return append(voidBytes, b...) }\n\nvar _ = voidAnd\n")


def ctl_new_goroutine(rw):
    rw.in_func("minify.go", r"\(m \*M\) Bytes\(", "\tout := buffer.NewWriter", "\tgo func() {}()\n\tout := buffer.NewWriter")


def ctl_global_assign(rw):
    rw.append("svg/svg.go", "\nfunc setVoid(b []byte) { voidBytes = b }\n\nvar _ = setVoid\n")


def ctl_ordered_map_range(rw):
    rw.append("html/table.go", """
// order-sensitive use of a map iteration
func firstRawTag() Hash {
	for h, t := range tagMap {
		if t&rawTag != 0 {
			return h
		}
	}
	return 0
}

var _ = firstRawTag
""")


T = ["c13_facts"]
REWRITES = [
    R("c13-ro-helper", T, "invariant", "extract-helper", "bytes.Equal(x, global) replaced by a new in-repo read-only helper", ro_helper, tests=["./js/..."]),
    R("c13-ro-helper-chain", T, "invariant", "extract-helper", "new helper passing a package-level slice on to another helper and bytes.Compare", ro_helper_chain, tests=["./svg/..."]),
    R("c13-stdlib-readonly", T + ["c10_api"], "invariant", "add-unrelated-readonly-call", "unrelated helper: bytes.Contains/Index/HasSuffix/Compare/EqualFold/IndexByte/Count, append([]byte(nil), g...)", stdlib_readonly),
    R("c13-rename-writer-param", T + ["c14_exits"], "invariant", "rename-param", "json Minify: writer parameter w -> out", rename_writer_param, tests=["./json/..."]),
    R("c13-rename-receiver-cssmin", T, "invariant", "rename-receiver", "css: receiver c of cssMinifier methods -> cm", rename_receiver_cssmin, tests=["./css/..."]),
    R("c13-rename-mutex-field", T, "invariant", "rename-field", "minify.M: field mutex -> mu", rename_mutex_field, tests=["."]),
    R("c13-rename-receiver-M", T, "invariant", "rename-receiver", "minify.M registration/lookup methods: receiver m -> reg", rename_receiver_M, tests=["."]),
    R("c13-rename-registry-key", T, "invariant", "rename-param", "M.Add: parameter mimetype -> mt", rename_registry_key),
    R("c13-write-closure", T + ["c14_exits"], "invariant", "local-closure", "json Minify: write := w.Write; write(commaBytes)", write_closure, tests=["./json/..."]),
    R("c13-new-global", T, "invariant", "add-unrelated-var", "xml: new package-level []byte only read through bytes.HasPrefix", new_global),
    R("c13-set-building-range", T, "invariant", "add-unrelated-func", "html: unrelated function that builds a set by ranging over a map", set_building_range),
    R("c13-option-copy-renamed", T, "invariant", "rename-local", "html Minify: private copy of the options tmp -> private", option_copy_renamed, tests=["./html/..."]),
    R("c13-option-copy-new", T, "invariant", "equivalent-form", "html Minify: tmp := new(Minifier); *tmp = *o; o = tmp", option_copy_new, tests=["./html/..."]),
    R("c13-svg-option-copy-value", T, "invariant", "equivalent-form", "svg Minify: cp := *o; o = &cp instead of tmp := &Minifier{}; *tmp = *o; o = tmp", svg_option_copy_value, tests=["./svg/..."]),
    R("c13-move-byte-vars", T, "invariant", "move-decl", "json: the package-level byte slices move to a new file", move_byte_vars),
    R("c13-lock-comment", T, "invariant", "comments", "M.Add: comment and blank line around the lock calls", lock_defer_to_explicit),
    R("c13-appendbase-func-renamed", T + ["c10_api"], "invariant", "rename-func", "css: the method that appends to urlBytes is renamed", appendbase_func_renamed, tests=["./css/..."]),
    R("c13-store-via-helper", T, "invariant", "extract-helper", "css: `values[i].Data = noneBytes` through a helper setData(&values[i], noneBytes)", store_via_helper, tests=["./css/..."],
      known="field-based alias analysis: once a callee stores its parameter in Token.Data every in-place edit of any token's data counts as a write; the direct store is deliberately outside the static fact (run-time hook)"),
    R("c13-ctl-elem-write", T, "changes", "control", "js: element write to a package-level slice", ctl_elem_write),
    R("c13-ctl-write-via-helper", T, "changes", "control", "css: helper that overwrites its argument is called with a package-level slice", ctl_write_via_helper),
    R("c13-ctl-write-via-helper-chain", T, "changes", "control", "css: helper re-slices and hands on to a helper that copies into it", ctl_write_via_helper_chain),
    R("c13-ctl-write-via-alias", T, "changes", "control", "css: write through a local alias of a package-level slice", ctl_write_via_alias),
    R("c13-ctl-stored-then-written", T, "changes", "control", "js: jsMinifier.write stores its argument in m.prev and later writes through m.prev", ctl_helper_stores_then_writes),
    R("c13-ctl-tolower-global", T, "changes", "control", "html: parse.ToLower (in place) on a package-level slice", ctl_tolower_global),
    R("c13-ctl-drop-option-copy", T, "changes", "control", "html Minify writes the caller's option struct again", ctl_drop_option_copy),
    R("c13-ctl-svg-option-write", T, "changes", "control", "svg Minify loses its private option copy", ctl_svg_option_write),
    R("c13-ctl-registry-write-rlock", T, "changes", "control", "MinifyMimetype caches into m.literal under the read lock", ctl_registry_write_under_rlock),
    R("c13-ctl-unlock-dropped", T, "changes", "control", "AddFunc no longer unlocks", ctl_unlock_dropped),
    R("c13-ctl-append-global", T, "changes", "control", "xml: append to a package-level slice", ctl_append_global),
    R("c13-ctl-new-goroutine", T, "changes", "control", "M.Bytes starts a goroutine", ctl_new_goroutine),
    R("c13-ctl-global-assign", T, "changes", "control", "svg: a package-level slice is re-assigned", ctl_global_assign),
    R("c13-ctl-ordered-map-range", T, "changes", "control", "html: result depends on map iteration order", ctl_ordered_map_range),
]

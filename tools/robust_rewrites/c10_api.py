# Rewrites aimed at harness/cmd/extract/c10_api.go (Gen/ApiFacts.lean; theorems Props/C10 Api.wrapper_facts_ok, Api.limits_ok).

def unrelated_comparison(rw):
    rw.append("css/util.go", """
// unrelated numeric comparison with a large literal
func isWideCodepoint(r rune) bool { return r >= 0x10000 || 65535 < r || r > 1114111 }

func isLongName(b []byte) bool { return 64 <= len(b) }

var _, _ = isWideCodepoint, isLongName
""")


def unrelated_comparison_in_limit_func(rw):
    # a comparison with a literal >= 50 that is not a size limit, inside a function that has one
    rw.in_func("svg/pathdata.go", r"\(p \*PathData\) ShortenPathData", "\tif 100000 < len(b) {", "\tif 0 < len(b) && b[0] >= 128 {\n\t\t_ = b\n\t}\n\tif 100000 < len(b) {")


def limit_as_const(rw):
    rw.sub("css/css.go", "\tif 100 < len(values) {\n", "\tif maxPropertyValues < len(values) {\n")
    rw.append("css/css.go", "\nconst maxPropertyValues = 100\n")


def limit_flipped(rw):
    rw.sub("css/css.go", "\tif 100 < len(values) {\n", "\tif len(values) > 100 {\n")
    rw.sub("svg/pathdata.go", "\tif 100000 < len(b) {\n", "\tif len(b) >= 100001 {\n")


def limit_offset_folded(rw):
    rw.sub("css/css.go", "\tif 100 < c.tokensLevel+1 {\n", "\tif 100 <= c.tokensLevel {\n")


def limit_inverted_if(rw):
    rw.sub("js/vars.go", "\t\tif 10000 < len(decl.List) {\n\t\t\treturn\n\t\t}\n", "\t\tif len(decl.List) <= 10000 {\n\t\t\t_ = decl\n\t\t} else {\n\t\t\treturn\n\t\t}\n")


def limit_in_helper(rw):
    rw.sub("js/util.go", "\t\t\t\tif 50 < len(strings) {\n", "\t\t\t\tif tooManyParts(len(strings)) {\n")
    rw.append("js/util.go", "\nfunc tooManyParts(n int) bool { return 50 < n }\n")


def limit_var_renamed(rw):
    rw.rename_in_func("css/css.go", r"\(c \*cssMinifier\) minifyProperty", "values", "vals")


def limit_func_renamed(rw):
    rw.rename("js", "binaryNumber", "binaryNumeral")


def limit_func_moved(rw):
    rw.move_func("js/util.go", r"binaryNumber\(", "js/numbers.go")
    rw.add_imports("js/numbers.go", "github.com/tdewolff/parse/v2/strconv", "github.com/tdewolff/minify/v2")
    rw.gofmt("js/numbers.go")


def wrapper_hoisted(rw):
    rw.sub("minify.go", "\tif err := m.Minify(mediatype, out, buffer.NewReader(parse.Copy(v))); err != nil {\n\t\treturn v, err\n\t}\n",
           "\tprivate := parse.Copy(v)\n\tin := buffer.NewReader(private)\n\tif err := m.Minify(mediatype, out, in); err != nil {\n\t\treturn v, err\n\t}\n")


def wrapper_append_copy(rw):
    rw.sub("minify.go", "buffer.NewReader(parse.Copy(v))", "buffer.NewReader(append([]byte(nil), v...))")


def wrapper_param_renamed(rw):
    rw.rename_in_func("minify.go", r"\(m \*M\) Bytes\(", "v", "src")
    rw.rename_in_func("minify.go", r"\(m \*M\) String\(", "v", "src")


def wrapper_err_first(rw):
    rw.sub("minify.go", "\tif err := m.Minify(mediatype, out, buffer.NewReader(parse.Copy(v))); err != nil {\n\t\treturn v, err\n\t}\n\treturn out.Bytes(), nil\n",
           "\terr := m.Minify(mediatype, out, buffer.NewReader(parse.Copy(v)))\n\tif err == nil {\n\t\treturn out.Bytes(), nil\n\t}\n\treturn v, err\n")


# ---- controls ----

def ctl_alias(rw):
    rw.sub("minify.go", "buffer.NewReader(parse.Copy(v))", "buffer.NewReader(v)")


def ctl_alias_hoisted(rw):
    rw.sub("minify.go", "\tif err := m.Minify(mediatype, out, buffer.NewReader(parse.Copy(v))); err != nil {\n",
           "\tprivate := v[:len(v):len(v)]\n\tif err := m.Minify(mediatype, out, buffer.NewReader(private)); err != nil {\n")


def ctl_return_partial(rw):
    rw.sub("minify.go", "\tif err := m.Minify(mediatype, out, buffer.NewReader(parse.Copy(v))); err != nil {\n\t\treturn v, err\n",
           "\tif err := m.Minify(mediatype, out, buffer.NewReader(parse.Copy(v))); err != nil {\n\t\treturn out.Bytes(), err\n")


def ctl_limit_removed(rw):
    rw.sub("css/css.go", "\tif 100 < len(values) {\n\t\treturn values\n\t}\n", "")


def ctl_limit_changed(rw):
    rw.sub("svg/pathdata.go", "\tif 100000 < len(b) {\n", "\tif 1000000 < len(b) {\n")


def ctl_limit_recursion_removed(rw):
    rw.sub("css/css.go", "\tif 100 < c.tokensLevel+1 {\n\t\treturn values\n\t}\n", "")


def ctl_limit_const_changed(rw):
    rw.sub("js/util.go", "\t\t\t\tif 50 < len(strings) {\n", "\t\t\t\tif maxParts < len(strings) {\n")
    rw.append("js/util.go", "\nconst maxParts = 5000\n")


T = ["c10_api"]
REWRITES = [
    R("c10-unrelated-comparison", T, "invariant", "add-unrelated-comparison", "css: new helpers comparing with literals >= 50", unrelated_comparison),
    R("c10-unrelated-comparison-in-limit-func", T, "invariant", "add-unrelated-comparison", "ShortenPathData: extra byte-class comparison b[0] >= 128", unrelated_comparison_in_limit_func),
    R("c10-limit-as-const", T, "invariant", "literal-to-const", "css minifyProperty: limit 100 becomes a named constant", limit_as_const),
    R("c10-limit-flipped", T, "invariant", "equivalent-form", "limits written `len(x) > N` / `len(x) >= N+1`", limit_flipped, tests=["./css/...", "./svg/..."]),
    R("c10-limit-offset-folded", T, "invariant", "equivalent-form", "`100 < level+1` written `100 <= level`", limit_offset_folded, tests=["./css/..."]),
    R("c10-limit-inverted-if", T, "invariant", "invert-if", "hoistVars limit as if/else with the inverted condition", limit_inverted_if, tests=["./js/..."]),
    R("c10-limit-in-helper", T, "invariant", "extract-helper", "mergeBinaryExpr limit moved into a helper predicate", limit_in_helper, tests=["./js/..."]),
    R("c10-limit-var-renamed", T, "invariant", "rename-param", "minifyProperty: parameter values -> vals", limit_var_renamed),
    R("c10-limit-func-renamed", T, "invariant", "rename-func", "js: binaryNumber -> binaryNumeral", limit_func_renamed),
    R("c10-limit-func-moved", T, "invariant", "move-decl", "js: binaryNumber moves to another file", limit_func_moved),
    R("c10-wrapper-hoisted", T + ["c12_skel"], "invariant", "extract-local", "M.Bytes: the private copy and the reader are hoisted into locals", wrapper_hoisted, tests=["."]),
    R("c10-wrapper-append-copy", T + ["c12_skel"], "invariant", "equivalent-form", "M.Bytes: append([]byte(nil), v...) instead of parse.Copy(v)", wrapper_append_copy, tests=["."]),
    R("c10-wrapper-param-renamed", T + ["c12_skel"], "invariant", "rename-param", "M.Bytes/M.String: v -> src", wrapper_param_renamed),
    R("c10-wrapper-err-first", T + ["c12_skel"], "invariant", "invert-if", "M.Bytes: success return inside `if err == nil`, error return last", wrapper_err_first, tests=["."]),
    R("c10-ctl-alias", T + ["c12_skel"], "changes", "control", "M.Bytes hands the caller's slice to the minifier", ctl_alias),
    R("c10-ctl-alias-hoisted", T + ["c12_skel"], "changes", "control", "M.Bytes: `private := v[:len(v):len(v)]` is still the caller's array", ctl_alias_hoisted),
    R("c10-ctl-return-partial", T + ["c12_skel"], "changes", "control", "M.Bytes returns the partial output on error", ctl_return_partial),
    R("c10-ctl-limit-removed", T, "changes", "control", "css minifyProperty size limit removed", ctl_limit_removed),
    R("c10-ctl-limit-changed", T, "changes", "control", "svg path limit 100000 -> 1000000", ctl_limit_changed),
    R("c10-ctl-limit-recursion-removed", T, "changes", "control", "css minifyTokens recursion limit removed", ctl_limit_recursion_removed),
    R("c10-ctl-limit-const-changed", T, "changes", "control", "js mergeBinaryExpr limit becomes a constant with another value", ctl_limit_const_changed),
]

#!/usr/bin/env python3
"""Summarise one or two reports of tools/robust.py (out/robust/report.json).

  tools/robust_table.py after.json                 per-generator counts and the list of unexpected outcomes
  tools/robust_table.py before.json after.json     the same, side by side, plus the rewrites whose outcome differs

`outcome` of a rewrite for one generator = the worst outcome among the generated files that generator writes
(identical < changed/pass < BREAKS); for a control: caught > changed > BLIND."""
import sys, json, os, re, glob

ROOT = os.path.dirname(os.path.dirname(os.path.abspath(__file__)))


def owners():
    m = {}
    for f in glob.glob(os.path.join(ROOT, "harness", "cmd", "extract", "c*.go")):
        for g in re.findall(r'\bgen\("(\w+)"', open(f).read()):
            m[g] = os.path.basename(f)[:-3]
    return m


def classify(row, gen, own):
    """outcome of one rewrite for one generator"""
    st = row.get("status") or ""
    if st.startswith("DOES-NOT"):
        return "n/a (" + st.lower() + ")"
    worst = 0
    for g, v in row["files"].items():
        if own.get(g) != gen:
            continue
        if v.startswith("BREAKS"):
            worst = max(worst, 2)
        elif v.startswith("changed"):
            worst = max(worst, 1)
    if row["expect"] == "invariant":
        if worst == 2 and "documented limitation" in st:
            return "BREAKS (documented)"
        return ["identical", "changed/pass", "BREAKS"][worst]
    return ["blind here", "changed", "caught"][worst]


def load(p):
    d = json.load(open(p))
    return d["repo_head"], {r["name"]: r for r in d["rows"]}


def main():
    args = sys.argv[1:]
    own = owners()
    gens = sorted(set(own.values()))
    heads, reps = [], []
    for a in args:
        h, r = load(a)
        heads.append(h)
        reps.append(r)
    labels = ["before", "after"][-len(reps):]
    print("reports: " + ", ".join(f"{l} = /repo {h} ({len(r)} rewrites)" for l, h, r in zip(labels, heads, reps)))
    print()
    # per generator: counts over the rewrites that target it
    cats_inv = ["identical", "changed/pass", "BREAKS", "BREAKS (documented)"]
    cats_ctl = ["caught", "changed", "blind here"]
    print("| generator | " + " | ".join(f"{l}: invariant rewrites identical / changed-pass / BREAKS (documented limitation)" for l in labels) + " | "
          + " | ".join(f"{l}: controls caught / changed only / blind" for l in labels) + " |")
    print("|---|" + "---|" * (2 * len(reps)))
    for g in gens:
        cells_inv, cells_ctl = [], []
        for rep in reps:
            ci = {c: 0 for c in cats_inv}
            cc = {c: 0 for c in cats_ctl}
            for r in rep.values():
                if g not in r["targets"]:
                    continue
                o = classify(r, g, own)
                if o.startswith("n/a"):
                    continue
                if r["expect"] == "invariant":
                    ci[o] += 1
                else:
                    cc[o] += 1
            cells_inv.append(f"{ci['identical']} / {ci['changed/pass']} / {ci['BREAKS']}" + (f" ({ci['BREAKS (documented)']})" if ci['BREAKS (documented)'] else ""))
            cells_ctl.append(f"{cc['caught']} / {cc['changed']} / {cc['blind here']}")
        print(f"| {g} | " + " | ".join(cells_inv) + " | " + " | ".join(cells_ctl) + " |")
    print()
    for l, rep in zip(labels, reps):
        inv = [r for r in rep.values() if r["expect"] == "invariant"]
        ctl = [r for r in rep.values() if r["expect"] == "changes"]
        fa = [r["name"] for r in inv if (r.get("status") or "") == "BREAKS"]
        doc = [r["name"] for r in inv if "documented limitation" in (r.get("status") or "")]
        blind = [r["name"] for r in ctl if r.get("status") == "BLIND"]
        na = [r["name"] for r in rep.values() if (r.get("status") or "").startswith("DOES-NOT")]
        print(f"{l}: {len(inv)} harmless rewrites: {sum(1 for r in inv if r.get('status') == 'identical')} identical, "
              f"{sum(1 for r in inv if r.get('status') == 'changed/pass')} changed/theorems pass, {len(fa)} FALSE ALARMS, {len(doc)} documented limitations; "
              f"{len(ctl)} controls: {sum(1 for r in ctl if r.get('status') == 'caught')} caught (generator fails or a theorem breaks), "
              f"{sum(1 for r in ctl if (r.get('status') or '').startswith('changed'))} change the facts with all theorems passing (left to the correspondence run), {len(blind)} BLIND"
              + (f"; not applicable: {', '.join(na)}" if na else ""))
        if fa:
            print(f"  false alarms ({l}): " + ", ".join(fa))
        if blind:
            print(f"  blind ({l}): " + ", ".join(blind))
    if len(reps) == 2:
        print()
        print("| rewrite | class | expect | before | after |")
        print("|---|---|---|---|---|")
        for n in sorted(set(reps[0]) | set(reps[1])):
            b, a = reps[0].get(n), reps[1].get(n)
            sb = (b or {}).get("status", "— (not in the catalogue yet)")
            sa = (a or {}).get("status", "—")
            r = a or b
            if sb != sa:
                print(f"| `{n}` | {r['cls']} | {r['expect']} | {sb} | {sa.split(':')[0] if 'documented' in sa else sa} |")


if __name__ == "__main__":
    main()

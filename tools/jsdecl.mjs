#!/usr/bin/env node
// jsdecl.mjs — node side of the C01D check "the hand-written Lean semantics (Spec/JsDeclSem.lean) agrees with a real
// engine".  Runs a program in a fresh vm context (sloppy script) whose only pre-bound globals are the host functions
// g and h; the i-th host call returns / throws item i mod len of `script` ("v<n>" value, "t<n>" throw, "u" undefined).
// The observation is rendered exactly like `showOut` of lean/Driver/C01D.lean:
//   trace=g(1,undefined);h()|completion=normal|globals=a=1;b=<none>
//
//   node tools/jsdecl.mjs < requests.jsonl > replies.jsonl
// request {"id":1,"src":"…","script":["v1","u"],"names":["a","b"]}   reply {"id":1,"obs":"…"}

import vm from 'node:vm';
import readline from 'node:readline';

const HOST = ['g', 'h'];

function run(req) {
  let script;
  try { script = new vm.Script(req.src, { filename: 'prog.js' }); } catch (e) { return 'syntax'; }
  const sandbox = {};
  const ctx = vm.createContext(sandbox);
  const trace = [];
  const hostFns = new Map();
  const shw = (v) => {
    if (v === undefined) return 'undefined';
    if (v === null) return 'null';
    if (typeof v === 'boolean') return v ? 'true' : 'false';
    if (typeof v === 'number') return Object.is(v, -0) ? '0' : String(v);
    if (typeof v === 'string') return '"' + v + '"';
    if (typeof v === 'function') return hostFns.has(v) ? 'host:' + hostFns.get(v) : 'function';
    if (typeof v === 'object' && typeof v.name === 'string' && /Error$/.test(v.name)) return 'error:' + v.name;
    return 'object';
  };
  const items = req.script || [];
  for (const name of HOST) {
    const fn = (...args) => {
      trace.push(name + '(' + args.map(shw).join(',') + ')');
      if (items.length === 0) return undefined;
      const it = items[(trace.length - 1) % items.length];
      if (it[0] === 'v') return parseInt(it.slice(1), 10);
      if (it[0] === 't') throw parseInt(it.slice(1), 10);
      return undefined;
    };
    hostFns.set(fn, name);
    sandbox[name] = fn;
  }
  let completion = 'normal';
  try {
    script.runInContext(ctx, { timeout: 2000, displayErrors: false });
  } catch (e) {
    if (e && e.code === 'ERR_SCRIPT_EXECUTION_TIMEOUT') return 'stuck:timeout';
    if (e instanceof RangeError) return 'stuck:stack';
    completion = 'throw:' + shw(e);
  }
  const TDZ = {}, NONE = {};
  const globals = [];
  for (const n of req.names || []) {
    let v;
    try {
      v = new vm.Script(`(function(T,N){try{return ${n}}catch(e){return /before initialization/.test(e.message)?T:N}})`)
        .runInContext(ctx)(TDZ, NONE); // no timeout: a loaded machine must not change the observation
    } catch (e) { return 'stuck:probe ' + String(e); }
    globals.push(n + '=' + (v === TDZ || v === NONE ? '<none>' : shw(v)));
  }
  return 'trace=' + trace.join(';') + '|completion=' + completion + '|globals=' + globals.join(';');
}

const rl = readline.createInterface({ input: process.stdin, crlfDelay: Infinity, terminal: false });
const out = [];
for await (const line of rl) {
  if (line.trim() === '') continue;
  let rep;
  try {
    const req = JSON.parse(line);
    let obs;
    try { obs = run(req); } catch (e) { obs = 'stuck:internal ' + String(e); }
    rep = { id: req.id, obs };
  } catch (e) { rep = { id: -1, obs: 'stuck:bad request' }; }
  out.push(JSON.stringify(rep));
  if (out.length >= 256) { process.stdout.write(out.join('\n') + '\n'); out.length = 0; }
}
if (out.length) process.stdout.write(out.join('\n') + '\n');

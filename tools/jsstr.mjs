// Value of JavaScript string / template literals according to V8 (oracle of C01E).
// stdin : one JSON array per line; every element is the hex encoding of the SOURCE BYTES of one literal
//         ('…', "…" or `…`).  The bytes are decoded as UTF-8 the way an engine reads a source file
//         (ill-formed sequences become U+FFFD) and evaluated as a sloppy-mode script (legacy octal allowed).
// stdout: one JSON array per line, same length: for each literal the array of UTF-16 code units of its
//         value, or null when the engine rejects the text (SyntaxError), evaluating it throws (a template
//         substitution referring to an unbound name) or the value is not a string.
// With argv[2] === 'strict' the literal is evaluated in strict mode instead.
import readline from 'node:readline';
const strict = process.argv[2] === 'strict';
const geval = eval; // indirect eval: global scope, sloppy unless the source says otherwise
const rl = readline.createInterface({ input: process.stdin, crlfDelay: Infinity });
for await (const line of rl) {
  if (!line.trim()) continue;
  const lits = JSON.parse(line);
  const out = new Array(lits.length);
  for (let k = 0; k < lits.length; k++) {
    const src = Buffer.from(lits[k], 'hex').toString('utf8');
    let v = null;
    try {
      const r = geval((strict ? '"use strict";' : '') + '(' + src + '\n)');
      if (typeof r === 'string') {
        v = new Array(r.length);
        for (let i = 0; i < r.length; i++) v[i] = r.charCodeAt(i);
      }
    } catch (e) { v = null; }
    out[k] = v;
  }
  process.stdout.write(JSON.stringify(out) + '\n');
}

#!/usr/bin/env python3
"""builds one patch per defect against a clean scratch clone of /repo, runs gofmt + go test ./... for each"""
import subprocess, sys, os, re
REPO = '/tmp/c03w/fix/repo'
OUT = '/root/w/c03/docs'
ENV = dict(os.environ, GOFLAGS='-mod=mod', GOPROXY='off', GOSUMDB='off', GOTOOLCHAIN='local')

def sh(cmd):
    return subprocess.run(cmd, cwd=REPO, shell=True, env=ENV, stdout=subprocess.PIPE, stderr=subprocess.STDOUT, text=True)

def rd(p): return open(os.path.join(REPO, p)).read()
def wr(p, s): open(os.path.join(REPO, p), 'w').write(s)
def rep(p, old, new, count=1):
    s = rd(p)
    assert s.count(old) >= 1, (p, old[:60])
    wr(p, s.replace(old, new, count))

H, T = 'html/html.go', 'html/table.go'

def k4():
    rep(H, "next.TokenType == html.EndTagToken && next.Traits&keepPTag == 0",
        "next.TokenType == html.EndTagToken && next.Traits != 0 && next.Traits&keepPTag == 0")
    rep(T, "\tSlot:       normalTag,", "\tSlot:       normalTag | keepPTag, // transparent content: a p inside is not closed by </slot>")

ENDTAG_HELPER = '''
// endTagOmittable reports whether the end tag of element h can be omitted in front of what follows: the next token
// that is not inter-element whitespace or a comment must be an end tag, the end of the input, or one of the start
// tags that close h implicitly (https://html.spec.whatwg.org/multipage/syntax.html#optional-tags). Anything else
// (text, a script or template element, ...) would end up inside h when the document is parsed again.
func endTagOmittable(tb *TokenBuffer, h Hash) bool {
	for i := 0; ; i++ {
		next := tb.Peek(i)
		if next.TokenType == html.TextToken && parse.IsAllWhitespace(next.Data) || next.TokenType == html.CommentToken {
			continue
		} else if h == Option && (next.TokenType == html.TextToken || next.TokenType == html.TemplateToken) {
			continue // text in select is not rendered (and skipped below)
		}
		switch next.TokenType {
		case html.ErrorToken, html.EndTagToken:
			return true
		case html.StartTagToken:
			switch h {
			case Li:
				return next.Hash == Li
			case Dt, Dd:
				return next.Hash == Dt || next.Hash == Dd
			case Rb, Rt, Rtc, Rp:
				return next.Hash == Rb || next.Hash == Rt || next.Hash == Rtc || next.Hash == Rp
			case Option:
				return next.Hash == Option || next.Hash == Optgroup
			case Thead, Tbody, Tfoot:
				return next.Hash == Tbody || next.Hash == Tfoot || next.Hash == Thead
			case Tr:
				return next.Hash == Tr
			case Td, Th:
				return next.Hash == Td || next.Hash == Th
			}
		}
		return false
	}
}
'''

def k5():
    rep(H, "\t\t\t\t\t\tomitEndTag = true // omit end tags\n",
        "\t\t\t\t\t\tomitEndTag = endTagOmittable(tb, t.Hash) // omit end tags that are inferred again at the same place\n")
    # </optgroup>: a comment (which is removed) between it and <option> must not hide the option
    rep(H, "\t\t\t\t\t\t\t// continue if text token\n\t\t\t\t\t\t\tif next.TokenType == html.TextToken {",
        "\t\t\t\t\t\t\t// continue if text token or comment\n\t\t\t\t\t\t\tif next.TokenType == html.TextToken || next.TokenType == html.CommentToken {")
    wr(H, rd(H) + ENDTAG_HELPER)

def k7():
    old = "\t\t\tif !hasAttributes && (!o.KeepDocumentTags && (t.Hash == Html || t.Hash == Head || t.Hash == Body) || t.Hash == Colgroup) {\n\t\t\t\tbreak"
    new = '''			// the body start tag cannot be omitted in front of an element that the parser would put into head
			keepBody := false
			if t.TokenType == html.StartTagToken && t.Hash == Body && !hasAttributes {
				for i := 1; ; i++ { // Peek(0) is the StartTagClose token
					next := tb.Peek(i)
					if next.TokenType == html.TextToken && parse.IsAllWhitespace(next.Data) || next.TokenType == html.CommentToken {
						continue
					}
					keepBody = next.TokenType == html.StartTagToken && (next.Hash == Script || next.Hash == Style || next.Hash == Link || next.Hash == Meta || next.Hash == Template || next.Hash == Noscript || next.Hash == Base || next.Hash == Title)
					break
				}
			}

			if !hasAttributes && !keepBody && (!o.KeepDocumentTags && (t.Hash == Html || t.Hash == Head || t.Hash == Body) || t.Hash == Colgroup) {
				break'''
    rep(H, old, new)

def k9a():  # embed, audio are replaced elements
    rep(T, "\tEmbed:      normalTag,", "\tEmbed:      objectTag,")
    rep(T, "\tAudio:      keepPTag,", "\tAudio:      objectTag | keepPTag,")

def k9b():  # noscript, style are not block-level
    rep(T, "\tNoscript:   blockTag | keepPTag,", "\tNoscript:   keepPTag,")
    rep(T, "\tStyle:      rawTag | blockTag,", "\tStyle:      rawTag,")

def k9c():  # </template> must not set omitSpace
    rep(H, "\t\t\t} else if t.Hash == Template {\n\t\t\t\tomitSpace = true // EndTagToken\n\t\t\t}\n", "\t\t\t}\n")

def k9d():  # an omitted end tag of an object-like element (rt, rtc) still separates
    rep(H, "\t\t\t\t\tw.Write(t.Data)\n\t\t\t\t}\n\n\t\t\t\t// skip text in select and optgroup tags",
        "\t\t\t\t\tw.Write(t.Data)\n\t\t\t\t} else if t.Traits&objectTag != 0 {\n\t\t\t\t\tomitSpace = false // the omitted end tag of an object-like element still ends it\n\t\t\t\t}\n\n\t\t\t\t// skip text in select and optgroup tags")

def k9e():  # datalist is not rendered: the pending-space state of its options must not leak out
    rep(T, "\tDatalist:   normalTag, // no text content", "\tDatalist:   objectTag, // no text content, not rendered")

def k9f():  # the closing quotation mark of q is generated content: a space before </q> is rendered
    rep(H, "\t\t\t\t\t\t} else if next.TokenType == html.TextToken && !parse.IsAllWhitespace(next.Data) || next.TokenType == html.TemplateToken {",
        "\t\t\t\t\t\t} else if next.TokenType == html.TextToken && !parse.IsAllWhitespace(next.Data) || next.TokenType == html.TemplateToken || next.TokenType == html.EndTagToken && next.Hash == Q {")

def k10a():
    old = "\t\t\t\t\t\tif !isRadio && len(value.AttrVal) == 0 {"
    new = '''						// an empty value is the default only for the text-like types (checkbox: "on", submit/reset: a label, ...)
						isTextLike := parse.EqualFold(t.AttrVal, textBytes) || parse.EqualFold(t.AttrVal, []byte("search")) || parse.EqualFold(t.AttrVal, []byte("tel")) || parse.EqualFold(t.AttrVal, []byte("url")) || parse.EqualFold(t.AttrVal, []byte("email")) || parse.EqualFold(t.AttrVal, []byte("password")) || parse.EqualFold(t.AttrVal, []byte("number"))
						if isTextLike && len(value.AttrVal) == 0 {'''
    rep(H, old, new)

def k10b():
    s = rd(T)
    for n in ('Pattern', 'Target', 'Formtarget'):
        s, k = re.subn(r"\n\t%s: +trimAttr,[^\n]*" % n, "", s)
        assert k == 1, n
    wr(T, s)

def k10c():
    old = "\t\t\t\t\t\t\t\tcontent.AttrVal = bytes.ReplaceAll(content.AttrVal, []byte(\" \"), []byte(\"\"))\n"
    new = '''								// spaces are separators too (`width=1 height=2`): only remove those next to a `,`, `;`, `=` or another space
								j := 0
								for i, c := range content.AttrVal {
									if c == ' ' && (i == 0 || i+1 == len(content.AttrVal) || bytes.IndexByte([]byte(",;= "), content.AttrVal[i+1]) != -1 || 0 < j && bytes.IndexByte([]byte(",;="), content.AttrVal[j-1]) != -1) {
										continue
									}
									content.AttrVal[j] = c
									j++
								}
								content.AttrVal = content.AttrVal[:j]
'''
    rep(H, old, new)

GLUE_HELPER = '''
// hasReferenceGlue reports whether b contains an ampersand that is followed only by characters that can occur in
// a character reference and then directly by a reference to such a character (`&amp;&#108;t;`, `&&#35;60;`,
// `&lt&#59;`). Replacing the references of such a text one after the other would complete a reference that the text
// does not contain.
func hasReferenceGlue(b []byte) bool {
	for i := 0; i < len(b); i++ {
		if b[i] != '&' {
			continue
		}
		j := i + 1
		for j < len(b) && (b[j] >= '0' && b[j] <= '9' || b[j] >= 'a' && b[j] <= 'z' || b[j] >= 'A' && b[j] <= 'Z' || b[j] == '#' || b[j] == ';' || b[j] == '=') {
			j++
		}
		if j+1 < len(b) && b[j] == '&' && (b[j+1] == '#' || bytes.HasPrefix(b[j+1:], []byte("num;")) || bytes.HasPrefix(b[j+1:], []byte("semi;")) || bytes.HasPrefix(b[j+1:], []byte("equals;"))) {
			return true
		}
		i = j - 1
	}
	return false
}
'''

def k1():
    rep(H, "\t\t\t\tt.Data = parse.ReplaceMultipleWhitespaceAndEntities(t.Data, EntitiesMap, TextRevEntitiesMap)\n",
        "\t\t\t\tif hasReferenceGlue(t.Data) {\n\t\t\t\t\tt.Data = parse.ReplaceMultipleWhitespace(t.Data) // leave the references alone\n\t\t\t\t} else {\n\t\t\t\t\tt.Data = parse.ReplaceMultipleWhitespaceAndEntities(t.Data, EntitiesMap, TextRevEntitiesMap)\n\t\t\t\t}\n")
    old = "\t\t\t\t\tif attr.Traits&trimAttr != 0 {\n\t\t\t\t\t\tval = parse.ReplaceMultipleWhitespaceAndEntities(val, EntitiesMap, AttrRevEntitiesMap)\n\t\t\t\t\t\tval = parse.TrimWhitespace(val)\n\t\t\t\t\t} else {\n\t\t\t\t\t\tval = parse.ReplaceEntities(val, EntitiesMap, AttrRevEntitiesMap)\n\t\t\t\t\t}\n"
    new = "\t\t\t\t\tif hasReferenceGlue(val) {\n\t\t\t\t\t\t// leave the references alone\n\t\t\t\t\t\tif attr.Traits&trimAttr != 0 {\n\t\t\t\t\t\t\tval = parse.TrimWhitespace(parse.ReplaceMultipleWhitespace(val))\n\t\t\t\t\t\t}\n\t\t\t\t\t} else if attr.Traits&trimAttr != 0 {\n\t\t\t\t\t\tval = parse.ReplaceMultipleWhitespaceAndEntities(val, EntitiesMap, AttrRevEntitiesMap)\n\t\t\t\t\t\tval = parse.TrimWhitespace(val)\n\t\t\t\t\t} else {\n\t\t\t\t\t\tval = parse.ReplaceEntities(val, EntitiesMap, AttrRevEntitiesMap)\n\t\t\t\t\t}\n"
    rep(H, old, new)
    rep(H, "// Minify minifies HTML data, it reads from r and writes to w.\nfunc Minify(", GLUE_HELPER.lstrip('\n') + "\n// Minify minifies HTML data, it reads from r and writes to w.\nfunc Minify(")

def k2():
    rep(T, "var TextRevEntitiesMap = map[byte][]byte{\n\t'<': []byte(\"&lt;\"),\n}",
        "var TextRevEntitiesMap = map[byte][]byte{\n\t'<':  []byte(\"&lt;\"),\n\t0:    []byte(\"&#0;\"),  // denotes U+FFFD, a literal NUL is dropped by the parser\n\t'\\r': []byte(\"&#13;\"), // a literal CR is normalised to LF by the parser\n}\n\n// AttrRevEntitiesMap is a map of escapes for attribute values.\nvar AttrRevEntitiesMap = map[byte][]byte{\n\t0:    []byte(\"&#0;\"),  // denotes U+FFFD\n\t'\\r': []byte(\"&#13;\"), // a literal CR is normalised to LF by the parser\n}")
    s = rd(H)
    assert s.count("EntitiesMap, nil)") == 2
    wr(H, s.replace("EntitiesMap, nil)", "EntitiesMap, AttrRevEntitiesMap)"))

def k12():
    rep(H, "\tomitSpace := true // if true the next leading space is omitted\n\tinPre := false\n",
        "\tomitSpace := true // if true the next leading space is omitted\n\tinPre := false\n\tafterPreStart := 0 // 1: right after <pre>, 2: and a comment was removed since\n")
    rep(H, "\t\tt := *tb.Shift()\n\t\tswitch t.TokenType {\n",
        "\t\tt := *tb.Shift()\n\t\tprevAfterPreStart := afterPreStart\n\t\tif t.TokenType != html.AttributeToken && t.TokenType != html.StartTagCloseToken {\n\t\t\tafterPreStart = 0\n\t\t}\n\t\tswitch t.TokenType {\n")
    rep(H, "\t\tcase html.CommentToken:\n\t\t\tif o.KeepComments {\n\t\t\t\tw.Write(t.Data)\n",
        "\t\tcase html.CommentToken:\n\t\t\tif 0 < prevAfterPreStart && !o.KeepComments {\n\t\t\t\tafterPreStart = 2 // the comment between <pre> and the text may disappear\n\t\t\t}\n\t\t\tif o.KeepComments {\n\t\t\t\tw.Write(t.Data)\n")
    rep(H, "\t\t\t} else if inPre {\n\t\t\t\tw.Write(t.Data)\n",
        "\t\t\t} else if inPre {\n\t\t\t\tif prevAfterPreStart == 2 && (t.Data[0] == '\\n' || t.Data[0] == '\\r') {\n\t\t\t\t\tw.Write([]byte(\"\\n\")) // a newline directly after <pre> is dropped by the parser\n\t\t\t\t}\n\t\t\t\tw.Write(t.Data)\n")
    rep(H, "\t\t\tif t.Hash == Pre {\n\t\t\t\tinPre = t.TokenType == html.StartTagToken\n\t\t\t}\n",
        "\t\t\tif t.Hash == Pre {\n\t\t\t\tinPre = t.TokenType == html.StartTagToken\n\t\t\t\tif inPre {\n\t\t\t\t\tafterPreStart = 1\n\t\t\t\t}\n\t\t\t}\n")

PATCHES = [
    ('K-C03-4', k4), ('K-C03-5', k5), ('K-C03-7', k7),
    ('K-C03-9a-embed-audio', k9a), ('K-C03-9b-noscript-style', k9b), ('K-C03-9c-template-end', k9c),
    ('K-C03-9d-omitted-object-end', k9d), ('K-C03-9e-datalist', k9e), ('K-C03-9f-q-end', k9f),
    ('K-C03-10a-input-value', k10a), ('K-C03-10b-pattern-target', k10b), ('K-C03-10c-viewport', k10c),
    ('K-C03-1-glue', k1), ('K-C03-2-cr-nul', k2), ('K-C03-12-pre-comment', k12),
]

def build(name, f, keep=False):
    sh('git checkout -q -- . && git clean -fdq')
    base = ''
    if name.startswith('K-C03-1-'):  # textually on top of K-C03-2 (same lines of the attribute loop)
        k2()
        sh('git add -A')
        base = ' --cached' if False else ''
    f()
    fmt = sh('gofmt -l html').stdout.strip()
    t = sh('go vet ./html/ && go test -count=1 ./...')
    ok = t.returncode == 0 and not fmt
    diff = sh('git diff').stdout  # relative to the index: for K-C03-1 the index holds K-C03-2
    sh('git reset -q')
    if ok:
        open(os.path.join(OUT, 'C03-fix-%s.patch' % name), 'w').write(diff)
    print('%-30s %s  (%d diff lines)%s' % (name, 'GREEN' if ok else 'RED', diff.count('\n'), ' gofmt:' + fmt if fmt else ''))
    if not ok:
        print('\n'.join(l for l in t.stdout.splitlines() if 'FAIL' in l or 'html_test' in l or 'vet' in l or '.go:' in l)[:3000])
    return ok

if __name__ == '__main__':
    only = sys.argv[1:]
    for n, f in PATCHES:
        if only and not any(n.startswith(o) for o in only):
            continue
        build(n, f)
    sh('git checkout -q -- . && git clean -fdq')
